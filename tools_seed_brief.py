#!/usr/bin/env python3
"""dev helper: tools_seed_brief.py <prop> <tag>  - create a scratch worktree /tmp/wt-<prop>-<tag> of /repo
and write BRIEF.md there (property text + task) for an independent sub-agent.  Nothing from /verif
other than the property's own text goes into the brief."""
import json, subprocess, sys

pid, tag = sys.argv[1], sys.argv[2]
wt = f"/tmp/wt-{pid}-{tag}"
prop = next(json.loads(l) for l in open("/verif/properties.jsonl") if json.loads(l)["id"] == pid)
subprocess.run(["git", "-C", "/repo", "worktree", "add", "--detach", wt, "HEAD"], check=True, capture_output=True)
import glob, os
prior = []
for d in sorted(glob.glob(f"/verif/seeded/{pid}-*")):
    try:
        m = json.load(open(d + "/meta.json"))
        prior.append("- " + " ".join(str(m.get("summary", "")).split())[:400])
    except Exception:
        pass
prior_txt = ("\n## Already used ideas (do something different, in other mechanisms / files)\n\n" + "\n".join(prior) + "\n") if prior else ""
brief = f"""# Task brief

You work ONLY inside `{wt}`, a scratch git worktree of the Python project XLSForm/pyxform
(converts XLSForm spreadsheets - xls/xlsx/csv/markdown/dict - into ODK XForm XML).
Do not modify `/repo`, and do not read or write anything under `/verif`.

Python is `/venv/bin/python` (3.12). Always run it from the worktree root so that
`import pyxform` resolves to `{wt}/pyxform` (check `pyxform.__file__` once).
Test suite: `cd {wt} && /venv/bin/python -m pytest -q -p no:cacheprovider --timeout=900`
(~40 s). On the UNCHANGED tree 27 tests fail/err because the ODK Validate jar is an empty
file; the tests that must keep passing are the `stable_pass` list in `/root/.vp/BASELINE.json`
(626 tests). There is no network.

## The property (of pyxform as a whole)

**{prop['title']}**

{prop['statement']}

Quantified: {prop['quantifier']['text']}

{prior_txt}
## What to produce

A *realistic* change to the pyxform sources that BREAKS this property while the code still
imports and every test that passes on the unchanged tree still passes. It should look like a
plausible slip a maintainer could make in a refactoring / optimisation / feature commit
(wrong variable, off-by-one, cache keyed on too little, condition slightly too wide or too
narrow, a state variable hoisted or not reset, one of two cooperating sites updated and the
other not ...), not sabotage noise. It should need something SPECIFIC to manifest - an unusual
but legitimate input, a particular nesting, a multi-step sequence of operations, a particular
interleaving or fault, or two sites that each look fine alone - NOT something that ordinary
use of a basic form would expose at once (the existing tests would catch that anyway).

Produce TWO independent changes touching different mechanisms, in `{wt}/seedA/` and
`{wt}/seedB/`, each with:

* `patch.diff` - `git diff` of the source change only (paths relative to the repo root,
  must apply with `git apply patch.diff` on a clean checkout of HEAD; do not include the seed
  directories or tests in it);
* `demo.py` - a small self-contained program using pyxform's public API (e.g.
  `from pyxform.xls2xform import convert`; `convert(xlsform=<markdown str or dict of sheets>)`)
  that exits 0 on the unchanged tree and exits 1, printing what went wrong, with the change
  applied. Run as `cd <tree> && /venv/bin/python seedA/demo.py`; it MUST start with
  `import os, sys; sys.path.insert(0, os.getcwd())` so that it imports the pyxform of the tree it is run from
  (the venv's editable install otherwise resolves to /repo);
* `meta.json` - {{"property": "{pid}", "summary": "...", "needs_to_manifest": "...",
  "files_changed": [...], "what_i_ran": "..."}}.

Verify yourself, for each change: (1) with the patch applied the full suite has the same set
of passing tests as without it (all `stable_pass` tests pass); (2) `demo.py` exits 1 with the
patch and 0 without. Finish with the worktree's tracked files clean (`git checkout -- .`),
leaving only the untracked `seedA/`, `seedB/` directories. Do not commit anything, and never use `git stash` (the stash is shared by all worktrees of the repository): to test without your change use `git diff > f.diff; git apply -R f.diff` and `git apply f.diff`.
Reply with a 5-line summary per change.
"""
open(f"{wt}/BRIEF.md", "w").write(brief)
print(wt)
