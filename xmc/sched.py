"""Stateless exploration of thread schedules for real Python threads.

A cooperative baton scheduler: every managed thread runs only while it holds the baton; scheduling
points are `sys.settrace` line (or call) events inside the code under test.  A schedule is a list of
preemptions [(thread, k), ...]: thread `t` is switched out just before its k-th point.  With the list
empty the threads run one after the other in `order`.  Executions are meant to run in a forked child
of a single-threaded parent so that every execution starts from the identical process state.

Lock shim: `SchedLock`/`SchedRLock` replace threading.Lock/RLock while the code under test is imported
(engine.bind_repo, VERIF_SCHEDLOCK=1).  Outside an exploration they behave like the real locks; inside,
a blocked acquire hands the baton to another enabled thread and "no enabled thread" is a deadlock verdict.
"""

import _thread
import os
import pickle
import select
import signal
import sys
import threading
import time
import traceback

_real_allocate = _thread.allocate_lock
CURRENT = None  # the active Sched of this process, if any


class Deadlock(Exception):
    pass


class Abort(BaseException):
    pass


class SchedLock:
    def __init__(self):
        self._l = _real_allocate()

    def acquire(self, blocking=True, timeout=-1):
        s = CURRENT
        tid = s.tid_of_current() if s is not None else None
        if tid is None:
            return self._l.acquire(blocking, timeout)
        while not self._l.acquire(False):
            if not blocking:
                return False
            s.yield_blocked(tid)
        return True

    def release(self):
        self._l.release()

    def locked(self):
        return self._l.locked()

    def _at_fork_reinit(self):
        self._l = _real_allocate()

    __enter__ = acquire

    def __exit__(self, *a):
        self.release()


class SchedRLock:
    def __init__(self):
        self._l = SchedLock()
        self._owner = None
        self._count = 0

    def acquire(self, blocking=True, timeout=-1):
        me = _thread.get_ident()
        if self._owner == me:
            self._count += 1
            return True
        if self._l.acquire(blocking, timeout):
            self._owner, self._count = me, 1
            return True
        return False

    def release(self):
        if self._owner != _thread.get_ident():
            raise RuntimeError("cannot release un-acquired lock")
        self._count -= 1
        if not self._count:
            self._owner = None
            self._l.release()

    __enter__ = acquire

    def __exit__(self, *a):
        self.release()

    def _at_fork_reinit(self):
        self._l._at_fork_reinit()
        self._owner, self._count = None, 0

    # protocol used by threading.Condition
    def _is_owned(self):
        return self._owner == _thread.get_ident()

    def _release_save(self):
        c, o = self._count, self._owner
        self._count, self._owner = 0, None
        self._l.release()
        return c, o

    def _acquire_restore(self, st):
        self._l.acquire()
        self._count, self._owner = st


class lock_shim:
    """context manager: threading.Lock / RLock create scheduler-aware locks while active"""

    def __enter__(self):
        self.saved = (threading.Lock, threading.RLock)
        threading.Lock, threading.RLock = SchedLock, SchedRLock

    def __exit__(self, *a):
        threading.Lock, threading.RLock = self.saved


class Sched:
    def __init__(self, nthreads, order, preempts, traced, granularity="line", record=False):
        """order: thread ids in the order they get the baton when a thread finishes / is preempted;
        preempts: list of (tid, k); traced(code) -> bool selects the code objects whose events are points"""
        self.n = nthreads
        self.order = list(order)
        self.preempts = list(preempts)
        self.traced = traced
        self.gran = granularity
        self.sem = [_real_allocate() for _ in range(nthreads)]
        for s in self.sem:
            s.acquire()
        self.count = [0] * nthreads
        self.done = [False] * nthreads
        self.blocked = [False] * nthreads
        self.started = [False] * nthreads
        self.idents = {}
        self.fired = []  # (tid, k, file, line, func) of each preemption that actually happened
        self.record = record
        self.trace = [[] for _ in range(nthreads)]
        self.deadlock = False
        self.switches = 0
        self._codes = {}

    # ---- bookkeeping
    def tid_of_current(self):
        return self.idents.get(_thread.get_ident())

    def _next_enabled(self, exclude):
        for j in self.order:
            if j != exclude and not self.done[j] and not self.blocked[j]:
                return j
        return None

    def _hand_over(self, i, j):
        self.switches += 1
        self.sem[j].release()
        self.sem[i].acquire()
        if self.deadlock:
            raise Abort()

    # ---- events
    def point(self, i, frame):
        self.count[i] += 1
        if self.record:
            c = frame.f_code
            b1 = frame.f_back
            b2 = b1.f_back if b1 is not None else None
            self.trace[i].append((c.co_filename, frame.f_lineno, c.co_name, b1.f_code.co_name if b1 is not None else "", b2.f_code.co_name if b2 is not None else ""))
        if self.preempts and self.preempts[0] == (i, self.count[i]):
            self.preempts.pop(0)
            j = self._next_enabled(i)
            c = frame.f_code
            if j is not None:
                self.fired.append((i, self.count[i], c.co_filename, frame.f_lineno, c.co_name))
                self._hand_over(i, j)

    def yield_blocked(self, i):
        self.blocked[i] = True
        j = self._next_enabled(i)
        if j is None:
            self.deadlock = True
            for t in range(self.n):
                if t != i and not self.done[t]:
                    self.sem[t].release()
            raise Deadlock("no enabled thread")
        self._hand_over(i, j)
        self.blocked[i] = False

    def finish(self, i):
        self.done[i] = True
        # blocked threads may retry once somebody has finished
        for t in range(self.n):
            self.blocked[t] = False
        j = self._next_enabled(i)
        if j is not None:
            self.sem[j].release()

    # ---- tracing
    def tracer(self, i):
        gran = self.gran

        def local(frame, event, arg):
            if event == "line":
                self.point(i, frame)
            return local

        def glob(frame, event, arg):
            code = frame.f_code
            t = self._codes.get(code)
            if t is None:
                t = self._codes[code] = bool(self.traced(code))
            if not t:
                return None
            if gran == "call":
                self.point(i, frame)
                return None
            return local

        return glob

    def run(self, bodies, first, join_timeout=60):
        """bodies: list of zero-arg callables; returns list of ('ok', value) | ('exc', text)"""
        global CURRENT
        results = [None] * self.n

        def runner(i):
            self.idents[_thread.get_ident()] = i
            self.sem[i].acquire()
            if self.deadlock:
                results[i] = ("exc", "Abort")
                return
            sys.settrace(self.tracer(i))
            try:
                results[i] = ("ok", bodies[i]())
            except Deadlock:
                results[i] = ("exc", "Deadlock")
            except Abort:
                results[i] = ("exc", "Abort")
            except BaseException as e:  # noqa: BLE001
                results[i] = ("exc", f"{type(e).__name__}: {e}"[:300])
            finally:
                sys.settrace(None)
                if not self.deadlock:
                    self.finish(i)

        CURRENT = self
        ths = [threading.Thread(target=runner, args=(i,), daemon=True) for i in range(self.n)]
        for t in ths:
            t.start()
        self.sem[first].release()
        deadline = time.time() + join_timeout
        for t in ths:
            t.join(max(0.0, deadline - time.time()))
        hung = [i for i, t in enumerate(ths) if t.is_alive()]
        CURRENT = None
        return results, hung


class ChildFailure(RuntimeError):
    pass


def in_child(fn, timeout=40):
    """run fn() in a forked child of this (single-threaded) process; return its picklable result"""
    r, w = os.pipe()
    pid = os.fork()
    if pid == 0:
        code = 0
        try:
            os.close(r)
            try:
                data = pickle.dumps(("ok", fn()))
            except BaseException:  # noqa: BLE001
                data = pickle.dumps(("err", traceback.format_exc()))
            with os.fdopen(w, "wb") as f:
                f.write(data)
        except BaseException:  # noqa: BLE001
            code = 3
        finally:
            os._exit(code)
    os.close(w)
    chunks = []
    deadline = time.time() + timeout
    with os.fdopen(r, "rb") as f:
        while True:
            left = deadline - time.time()
            if left <= 0:
                os.kill(pid, signal.SIGKILL)
                os.waitpid(pid, 0)
                raise ChildFailure(f"child exceeded {timeout}s (hang): not a verdict")
            rl, _, _ = select.select([f], [], [], min(left, 1.0))
            if rl:
                b = f.read1(1 << 20) if hasattr(f, "read1") else f.read()
                if not b:
                    break
                chunks.append(b)
    os.waitpid(pid, 0)
    if not chunks:
        raise ChildFailure("child produced no result")
    kind, val = pickle.loads(b"".join(chunks))
    if kind == "err":
        raise ChildFailure("exception in child:\n" + val)
    return val
