"""Path-resolution model for the child/parent axes pyxform emits (DESIGN.md 3.3)."""

import re

NAME = r"[^\W\d][\w.\-]*"  # (Unicode letters count: pyxform accepts any XML name)
P_ABS = re.compile(rf"^(?:/{NAME})+$")
P_REL = re.compile(rf"^\.\.(?:/\.\.)*(?:/{NAME})*$")
LAST_SAVED = "instance('__last-saved')"
REF = re.compile(r"\$\{(last-saved#)?(.*?)\}")


class Path:
    __slots__ = ("raw", "last_saved", "current", "absolute", "steps", "ok")

    def __init__(self, raw):
        self.raw = raw
        s = raw.strip()
        self.last_saved = s.startswith(LAST_SAVED)
        if self.last_saved:
            s = s[len(LAST_SAVED):]
        self.current = s.startswith("current()/")
        if self.current:
            s = s[len("current()/"):]
        self.absolute = s.startswith("/")
        self.ok = bool(P_ABS.match(s) if self.absolute else P_REL.match(s))
        self.steps = s.strip("/").split("/") if self.ok else []
        if self.last_saved and not self.absolute:
            self.ok = False

    def resolve(self, ctx):
        """ctx: list of names from the root; returns the list the path denotes"""
        if self.absolute:
            return list(self.steps)
        cur = list(ctx)
        for p in self.steps:
            if p == "..":
                if not cur:
                    return None
                cur = cur[:-1]
            else:
                cur.append(p)
        return cur


def norm_ws(s):
    return re.sub(r"\s+", " ", s).strip()


def align(source, output):
    """Match `output` against `source` whose ${...} tokens were replaced by paths.
    Returns the list of substituted strings (one per token) or None if the literal parts
    of the expression do not line up."""
    src = norm_ws(source)
    out = norm_ws(output)
    parts = REF.split(src)  # [lit, ls, name, lit, ls, name, lit]
    lits = parts[0::3]
    pat = "^"
    for i, lit in enumerate(lits):
        # whitespace at the seams is not significant (pyxform pads substituted paths)
        pat += r"\s*".join(re.escape(w) for w in lit.split(" ")) if lit else ""
        if i < len(lits) - 1:
            pat += r"\s*(\S(?:.*?\S)?)\s*"
    pat += "$"
    m = re.match(pat, out)
    if not m:
        return None
    return list(m.groups())


def refs_in(source):
    """[(is_last_saved, name)] in order"""
    return [(bool(a), b) for a, b in REF.findall(source)]
