"""Bounded generators shared by the property checks.  Every generator is a pure function
of its bound and enumerates its space completely, simplest first."""

import functools
import itertools


# ---- layout space L(N, D): ordered forests, node kinds q/g/r, containers non-empty ------
@functools.lru_cache(maxsize=None)
def _forests(n, depth):
    if n == 0:
        return ((),)
    out = []
    for k in range(1, n + 1):
        for first in _trees(k, depth):
            for rest in _forests(n - k, depth):
                out.append((first, *rest))
    return tuple(out)


@functools.lru_cache(maxsize=None)
def _trees(k, depth):
    if k == 1:
        return (("q",),)
    if depth <= 0:
        return ()
    out = []
    for kind in "gr":
        for ch in _forests(k - 1, depth - 1):
            if ch:
                out.append((kind, ch))
    return tuple(out)


def forests_exact(n, depth):
    """all ordered forests with exactly n nodes and container nesting <= depth"""
    return _forests(n, depth)


def forests_upto(nmax, depth, nmin=1):
    for n in range(nmin, nmax + 1):
        yield from _forests(n, depth)


def forest_size(forest):
    return sum(1 if t[0] == "q" else 1 + forest_size(t[1]) for t in forest)


def flatten(forest, names, root="data"):
    """pre-order list of nodes: dict(i, kind, name, path (list incl. root), parent index)"""
    nodes = []

    def rec(f, path, parent):
        for t in f:
            i = len(nodes)
            nm = names[i]
            nodes.append({"i": i, "kind": t[0], "name": nm, "path": [*path, nm], "parent": parent})
            if t[0] != "q":
                rec(t[1], [*path, nm], i)

    rec(forest, [root], None)
    return nodes


def rows_from_forest(forest, names, qrow=None, crow=None):
    """Survey rows by pre-order traversal.  qrow(i, name) / crow(i, kind, name) build the
    begin/question rows (dicts); end rows are added here."""
    rows = []
    idx = [0]

    def rec(f):
        for t in f:
            i = idx[0]
            idx[0] += 1
            nm = names[i]
            if t[0] == "q":
                rows.append(qrow(i, nm) if qrow else {"type": "text", "name": nm, "label": nm})
            else:
                kind = "group" if t[0] == "g" else "repeat"
                r = crow(i, t[0], nm) if crow else {"type": f"begin {kind}", "name": nm, "label": nm}
                rows.append(r)
                rec(t[1])
                rows.append({"type": f"end {kind}"})

    rec(forest)
    return rows


def subsets_upto(items, k):
    items = list(items)
    for r in range(0, k + 1):
        yield from itertools.combinations(items, r)


DEFAULT_NAMES = ["a", "b", "c", "d", "e", "f", "g", "h"]


class GenSpace:
    """A union of named case generators, cut into index-range blocks.  Each generator is a
    pure function gen(tier) -> iterable of cases; blocks are (name, start, stop)."""

    def __init__(self, gens, chunk=400):
        self.gens = gens
        self.chunk = chunk

    def blocks(self, tier):
        for name, g in self.gens.items():
            n = sum(1 for _ in g(tier))
            for s in range(0, n, self.chunk):
                yield (name, s, min(n, s + self.chunk))

    def expand(self, block, tier):
        name, s, e = block
        return itertools.islice(self.gens[name](tier), s, e)
