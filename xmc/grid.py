"""The sparse translation grid shared by C07 / C08 / C20: rows x translatable columns x
language tags, on the survey and choices sheets.  Cell values are distinct markers."""

import itertools
import re

from xmc import observe as O

ROWS = [("q", "text"), ("g", "begin group"), ("s", "select_one c")]
COLS = ["label", "hint", "guidance_hint", "constraint_message", "required_message", "image", "audio", "video", "big-image"]
CORE_COLS = ["label", "hint", "guidance_hint", "constraint_message", "image"]
MEDIA = ["image", "audio", "video", "big-image"]
LANGS = ["", "en", "fr"]
CCOLS = ["label", "image", "audio"]
CCORE = ["label", "image"]
NCHOICES = 2


class langs:
    """context manager: run the grid with another language-tag alphabet (e.g. case variants of one name)"""

    def __init__(self, tags):
        self.tags = list(tags)

    def __enter__(self):
        global LANGS
        self.saved = LANGS
        LANGS = self.tags

    def __exit__(self, *a):
        global LANGS
        LANGS = self.saved


INNER = "inner"  # name of the plain question inside the group row


class rows:
    """context manager: run the grid with other element names (e.g. names containing column keywords);
    `inner` renames the question inside the group (e.g. to the top-level question's name: legal, other section)"""

    def __init__(self, alt, inner=None):
        self.alt = list(alt)
        self.inner = inner

    def __enter__(self):
        global ROWS, INNER
        self.saved = (ROWS, INNER)
        ROWS = self.alt
        if self.inner:
            INNER = self.inner

    def __exit__(self, *a):
        global ROWS, INNER
        ROWS, INNER = self.saved


def cells(core=False):
    cols = CORE_COLS if core else COLS
    ccols = CCORE if core else CCOLS
    out = [("S", r, c, l) for r in range(len(ROWS)) for c in cols for l in LANGS]
    out += [("C", r, c, l) for r in range(NCHOICES) for c in ccols for l in LANGS]
    return out


def val(sheet, r, c, l):
    nm = ROWS[r][0] if sheet == "S" else f"ch{r}"
    v = f"{nm}.{c}.{l or '0'}"
    if c in MEDIA:
        v += ".png" if "image" in c else ".mp3" if c == "audio" else ".mp4"
    return v


def header(c, l, delim="::"):
    """delim may carry optional spaces around the colon(s): 'label : fr', 'label:: fr'"""
    base = c if c not in MEDIA else f"media{delim}{c}"
    if c in MEDIA and delim.strip() == ":":
        base = c
    return base if not l else f"{base}{delim}{l}"


def normalise(filled):
    """the filled-cell set actually rendered: every row keeps some label; big-image needs image"""
    F = set(tuple(x) for x in filled)
    for r in range(len(ROWS)):
        if not any(("S", r, "label", l) in F for l in LANGS):
            F.add(("S", r, "label", ""))
    for r in range(NCHOICES):
        if ("C", r, "NOLABEL", "") in F:
            F.discard(("C", r, "NOLABEL", ""))
            continue  # a choice without any label: accepted with a warning
        if not any(("C", r, "label", l) in F for l in LANGS):
            F.add(("C", r, "label", ""))
    for sh, r, c, l in list(F):
        if c == "big-image" and not any((sh, r, "image", l2) in F for l2 in LANGS):
            F.add((sh, r, "image", l))
    return F


def _reversed_cells(row):
    """same cells, translatable columns in the opposite left-to-right order (language columns before the unsuffixed twin)"""
    fixed = {k: v for k, v in row.items() if k in ("type", "name", "list_name", "constraint", "required")}
    rest = [(k, v) for k, v in row.items() if k not in fixed]
    return {**fixed, **dict(rest[::-1])}


def build(filled, deflang=None, delim="::", ref=False, second_select=True, deflang_arg=False, rev=False, search=False):
    F = normalise(filled)
    if search:
        second_select = False  # a search() list may not be shared with an ordinary select
    rows = []
    for i, (nm, ty) in enumerate(ROWS):
        row = {"type": ty, "name": nm}
        for sh, r, c, l in sorted(F, key=lambda x: (COLS.index(x[2]) if x[2] in COLS else 99, LANGS.index(x[3]))):
            if sh == "S" and r == i:
                v = val(sh, r, c, l)
                if ref and c in ("constraint_message", "required_message", "label", "hint"):
                    v += " ${inner}"
                row[header(c, l, delim)] = v
        if search and ty.startswith("select_one"):
            row["appearance"] = "search('f')"
        if any(k.startswith("constraint_message") for k in row):
            row["constraint"] = ". != 'zz'"
        if any(k.startswith("required_message") for k in row):
            row["required"] = "yes"
        rows.append(row)
        if ty == "begin group":
            rows.append({"type": "text", "name": INNER, "label": "inner"})
            rows.append({"type": "end group"})
    if second_select:
        rows.append({"type": "select_multiple c", "name": "s2", "label": "s2.label"})
    choices = []
    for r in range(NCHOICES):
        ch = {"list_name": "c", "name": f"ch{r}"}
        for sh, rr, c, l in sorted(F, key=lambda x: (CCOLS.index(x[2]) if x[2] in CCOLS else 99, LANGS.index(x[3]))):
            if sh == "C" and rr == r:
                v = val(sh, rr, c, l)
                if ref and c == "label":
                    v += " ${inner}"
                ch[header(c, l, delim)] = v
        choices.append(ch)
    if rev:
        rows = [_reversed_cells(r) for r in rows]
        choices = [_reversed_cells(c) for c in choices]
    wb = {"survey": rows, "choices": choices}
    kw = {}
    if deflang and deflang_arg == "both":
        # the settings sheet and a *different* convert() argument: the sheet is documented to win
        wb["settings"] = [{"default_language": deflang}]
        kw["default_language"] = "fr" if deflang != "fr" else "en"
    elif deflang and not deflang_arg:
        wb["settings"] = [{"default_language": deflang}]
    elif deflang:
        kw["default_language"] = deflang
    return wb, kw


# ---------------------------------------------------------------- reference model -----
def expected(filled, deflang=None, ref=False):
    """-> (exp {(sheet,row,col,lang): text | None}, langs, bearing)"""
    dl = deflang or "default"
    F = normalise(filled)
    langs = set()
    bearing = {}
    suffix = " ${inner}" if ref else ""
    for i, (nm, ty) in enumerate(ROWS):
        grp = ty == "begin group"
        has = lambda c, ls: any(("S", i, c, l) in F for l in ls)  # noqa: E731
        tr = [l for l in LANGS if l]
        has_media = any(has(m, LANGS) for m in MEDIA)
        has_g = has("guidance_hint", LANGS) and not grp
        bearing[("S", i, "label")] = has("label", tr) or has_media
        bearing[("S", i, "hint")] = has("hint", tr) or has_g
        bearing[("S", i, "guidance_hint")] = has_g
        bearing[("S", i, "constraint_message")] = has("constraint_message", tr) or (ref and has("constraint_message", LANGS))
        bearing[("S", i, "required_message")] = has("required_message", tr) or (ref and has("required_message", LANGS))
        for m in MEDIA:
            bearing[("S", i, m)] = has_media
        for c in COLS:
            if grp and c in ("guidance_hint", "hint", "constraint_message", "required_message"):
                # not displayed for groups, but a language named in a translated column of
                # the sheet still gets its translation
                if c != "guidance_hint":
                    for l in LANGS:
                        if ("S", i, c, l) in F:
                            if l:
                                langs.add(l)
                            elif has(c, tr):
                                langs.add(dl)
                continue
            for l in LANGS:
                if ("S", i, c, l) in F:
                    if l:
                        langs.add(l)
                    elif bearing[("S", i, c)]:
                        langs.add(dl)
    # choices: the whole list is itext-bearing as soon as one choice needs it
    list_itext = ref or any(("C", r, c, l) in F for r in range(NCHOICES) for c in CCOLS for l in LANGS if l or c != "label")
    for r in range(NCHOICES):
        for c in CCOLS:
            bearing[("C", r, c)] = list_itext
            for l in LANGS:
                if ("C", r, c, l) in F:
                    if l:
                        langs.add(l)
                    elif list_itext:
                        langs.add(dl)
    # a choice with no label and no media at all still has an itextId in an itext-bearing list: placeholder text
    contentless = {r for r in range(NCHOICES) if not any(("C", r, c, l) in F for c in CCOLS for l in LANGS)}
    exp = {}
    for (sh, i, c), b in bearing.items():
        isref = ref and ((sh == "S" and c in ("constraint_message", "required_message", "label", "hint")) or (sh == "C" and c == "label"))
        sfx = suffix if isref else ""
        for L in (langs or {None}):
            if b:
                if (sh, i, c, L) in F:
                    v = val(sh, i, c, L) + sfx
                elif L == dl and (sh, i, c, "") in F:
                    v = val(sh, i, c, "") + sfx
                else:
                    # placeholder only where an entry of this kind exists at all
                    anyc = any((sh, i, c, l) in F for l in LANGS) or (sh == "C" and c == "label" and i in contentless)
                    v = "-" if (c not in MEDIA and anyc) else None
                exp[(sh, i, c, L)] = v
            else:
                exp[(sh, i, c, L)] = (val(sh, i, c, "") + sfx) if (sh, i, c, "") in F else None
    return exp, langs, bearing


FORM = {"label": None, "hint": None, "guidance_hint": "guidance", "constraint_message": None, "required_message": None,
        "image": "image", "audio": "audio", "video": "video", "big-image": "big-image"}
MEDIA_PREFIX = {"image": "jr://images/", "big-image": "jr://images/", "audio": "jr://audio/", "video": "jr://video/"}


def render_value(el):
    """text of a value/label element with outputs shown as ${name-of-last-step}"""
    s = el.text or ""
    for c in el:
        if O.local(c.tag) == "output":
            s += "${%s}" % (c.get("value") or "").strip().split("/")[-1]
        s += c.tail or ""
    return re.sub(r"\s+", " ", s).strip()


def observed(obs, langs):
    """-> {(sheet,row,col,lang): text | None} read back from a parsed XForm"""
    itx = {}
    for lang, d, texts in obs.itext:
        tab = itx.setdefault(lang, {})
        for tid, vals in texts:
            tab[tid] = {form: el for form, el in vals}
    out = {}
    ctrls = {ref: el for el, tag, ref, anc in obs.body_controls() if tag in ("input", "group", "select1", "select")}
    bm = obs.bind_map()

    def look(L, el, form, media=None):
        if el is None:
            return None
        tid = O.itext_id(el.get("ref"))
        if tid is not None:
            v = itx.get(L, {}).get(tid, {}).get(form)
            if v is None:
                return None
            t = render_value(v)
            if media:
                return t[len(MEDIA_PREFIX[media]):] if t.startswith(MEDIA_PREFIX[media]) else "BADPREFIX:" + t
            return t
        if form is not None:
            return None
        t = render_value(el)
        return t if (el.text or len(el)) else None

    for L in (langs or {None}):
        for i, (nm, ty) in enumerate(ROWS):
            ref = "/data/" + nm
            el = ctrls.get(ref)
            lab = el.find(O.X + "label") if el is not None else None
            hint = el.find(O.X + "hint") if el is not None else None
            out[("S", i, "label", L)] = look(L, lab, None)
            for m in MEDIA:
                out[("S", i, m, L)] = look(L, lab, m, m)
            if ty != "begin group":
                out[("S", i, "hint", L)] = look(L, hint, None)
                out[("S", i, "guidance_hint", L)] = look(L, hint, "guidance")
                b = bm.get(ref, [None])[0]
                for c, attr in (("constraint_message", O.J + "constraintMsg"), ("required_message", O.J + "requiredMsg")):
                    v = b.get(attr) if b is not None else None
                    tid = O.itext_id(v)
                    if tid is not None:
                        e = itx.get(L, {}).get(tid, {}).get(None)
                        v = render_value(e) if e is not None else None
                    out[("S", i, c, L)] = v
        # choices
        inst = {i: el for i, _, el in obs.secondary_instances()}.get("c")
        items = inst.find(O.X + "root").findall(O.X + "item") if inst is not None else []
        for r in range(NCHOICES):
            it = items[r] if r < len(items) else None
            lab = it.find(O.X + "label") if it is not None else None
            iid = it.find(O.X + "itextId") if it is not None else None
            if iid is not None:
                forms = itx.get(L, {}).get(iid.text, {})
                out[("C", r, "label", L)] = render_value(forms[None]) if None in forms else None
                for m in ("image", "audio"):
                    if m in forms:
                        t = render_value(forms[m])
                        out[("C", r, m, L)] = t[len(MEDIA_PREFIX[m]):] if t.startswith(MEDIA_PREFIX[m]) else "BADPREFIX:" + t
                    else:
                        out[("C", r, m, L)] = None
            else:
                out[("C", r, "label", L)] = lab.text if lab is not None else None
                for m in ("image", "audio"):
                    out[("C", r, m, L)] = None
    return out, set(itx)


def subsets(cellset, k):
    for r in range(0, k + 1):
        yield from itertools.combinations(cellset, r)
