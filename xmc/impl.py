"""The only place where the harness touches pyxform: run one conversion and classify the
outcome as accept / reject (the library's own error type) / crash (anything else)."""

import copy
import os
import traceback

from xmc.engine import REPO


class Out:
    __slots__ = ("kind", "result", "xform", "warnings", "itemsets", "msg", "exc", "where")

    def __init__(self, kind, result=None, msg=None, exc=None, where=None):
        self.kind = kind  # "ok" | "reject" | "crash"
        self.result = result
        self.xform = result.xform if result is not None else None
        self.warnings = list(result.warnings) if result is not None else None
        self.itemsets = result.itemsets if result is not None else None
        self.msg = msg
        self.exc = exc
        self.where = where


def crash_where(tb):
    """innermost frame inside the tree under verification: 'file.py:function'"""
    where = "?"
    for fs in traceback.extract_tb(tb):
        fn = fs.filename
        if "/pyxform/" in fn and (fn.startswith(REPO) or "/pyxform/" in fn):
            where = f"{os.path.relpath(fn, REPO) if fn.startswith(REPO) else os.path.basename(fn)}:{fs.name}"
    return where


def wb_dict(wb):
    """fresh deep copy (pyxform mutates its input rows) of a {sheet: rows} workbook"""
    return copy.deepcopy(wb)


def run_convert(wb, **kw):
    from pyxform.errors import PyXFormError
    from pyxform.xls2xform import convert

    try:
        r = convert(wb_dict(wb) if isinstance(wb, dict) else wb, **kw)
        return Out("ok", result=r)
    except PyXFormError as e:
        return Out("reject", msg=str(e), exc=type(e).__name__)
    except RecursionError as e:
        return Out("crash", msg=str(e)[:200], exc="RecursionError", where="?")
    except Exception as e:  # noqa: BLE001 - classifying every non-library exception is the point
        return Out("crash", msg=str(e)[:300], exc=type(e).__name__, where=crash_where(e.__traceback__))
