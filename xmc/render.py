"""Renderers: abstract workbook {sheet: [row dicts]} -> md | csv | xlsx | xls.
Cell values may be str or typed (int, float, bool, ("date", serial)) for xlsx/xls.
The .xls writer emits a bare BIFF8 workbook stream (DESIGN.md appendix A), which xlrd reads."""

import csv
import io
import struct

SHEET_ORDER = ["survey", "choices", "settings", "external_choices", "entities", "osm"]


def sheet_names(wb):
    names = [s for s in wb if not s.endswith("_header") and s not in ("sheet_names", "fallback_form_name")]
    return sorted(names, key=lambda s: (SHEET_ORDER.index(s.lower()) if s.lower() in SHEET_ORDER else 99))


def headers_of(wb, sheet):
    h = wb.get(sheet + "_header")
    if h:
        return list(h[0])
    out = {}
    for r in wb[sheet]:
        for k in r:
            out[k] = None
    return list(out)


def table(wb, sheet):
    hs = headers_of(wb, sheet)
    return [hs] + [[r.get(h) for h in hs] for r in wb[sheet]]


def md_representable(wb):
    for s in sheet_names(wb):
        for row in table(wb, s):
            for v in row:
                if v is None:
                    continue
                if not isinstance(v, str) or v != v.strip() or "\n" in v or "\\" in v or v == "":
                    return False
        if any(not r for r in wb[s]):
            return False
    return True


def to_md(wb):
    lines = []
    for s in sheet_names(wb):
        lines.append(f"| {s} |")
        for row in table(wb, s):
            cells = ["" if v is None else str(v).replace("|", r"\|") for v in row]
            lines.append("| | " + " | ".join(cells) + " |")
    return "\n".join(lines) + "\n"


def to_csv(wb):
    f = io.StringIO(newline="")
    w = csv.writer(f, quoting=csv.QUOTE_ALL)
    for s in sheet_names(wb):
        w.writerow([s])
        for row in table(wb, s):
            w.writerow(["", *["" if v is None else str(v) for v in row]])
    return f.getvalue()


def to_xlsx(wb, tables=None):
    from openpyxl import Workbook

    book = Workbook(write_only=True)
    for s in sheet_names(wb) if tables is None else tables:
        sh = book.create_sheet(title=s)
        for row in (table(wb, s) if tables is None else tables[s]):
            sh.append([_xlsx_cell(v) for v in row])
    b = io.BytesIO()
    book.save(b)
    return b.getvalue()


def _col(n):
    out = ""
    n += 1
    while n:
        n, r = divmod(n - 1, 26)
        out = chr(65 + r) + out
    return out


def to_xlsx_raw(wb, tables=None):
    """Minimal hand-written xlsx (inline strings, numbers with full repr precision, booleans):
    openpyxl's own writer rounds floats to 16 significant digits, Excel does not."""
    import zipfile
    from xml.sax.saxutils import escape

    names = sheet_names(wb) if tables is None else list(tables)
    b = io.BytesIO()
    with zipfile.ZipFile(b, "w", zipfile.ZIP_DEFLATED) as z:
        ct = ['<?xml version="1.0" encoding="UTF-8" standalone="yes"?>',
              '<Types xmlns="http://schemas.openxmlformats.org/package/2006/content-types">',
              '<Default Extension="rels" ContentType="application/vnd.openxmlformats-package.relationships+xml"/>',
              '<Default Extension="xml" ContentType="application/xml"/>',
              '<Override PartName="/xl/workbook.xml" ContentType="application/vnd.openxmlformats-officedocument.spreadsheetml.sheet.main+xml"/>']
        for i in range(len(names)):
            ct.append(f'<Override PartName="/xl/worksheets/sheet{i + 1}.xml" ContentType="application/vnd.openxmlformats-officedocument.spreadsheetml.worksheet+xml"/>')
        ct.append("</Types>")
        z.writestr("[Content_Types].xml", "".join(ct))
        z.writestr("_rels/.rels", '<?xml version="1.0" encoding="UTF-8" standalone="yes"?><Relationships xmlns="http://schemas.openxmlformats.org/package/2006/relationships"><Relationship Id="rId1" Type="http://schemas.openxmlformats.org/officeDocument/2006/relationships/officeDocument" Target="xl/workbook.xml"/></Relationships>')
        shs = "".join(f'<sheet name="{escape(n, {chr(34): "&quot;"})}" sheetId="{i + 1}" r:id="rId{i + 1}"/>' for i, n in enumerate(names))
        z.writestr("xl/workbook.xml", '<?xml version="1.0" encoding="UTF-8" standalone="yes"?><workbook xmlns="http://schemas.openxmlformats.org/spreadsheetml/2006/main" xmlns:r="http://schemas.openxmlformats.org/officeDocument/2006/relationships"><sheets>' + shs + "</sheets></workbook>")
        rels = "".join(f'<Relationship Id="rId{i + 1}" Type="http://schemas.openxmlformats.org/officeDocument/2006/relationships/worksheet" Target="worksheets/sheet{i + 1}.xml"/>' for i in range(len(names)))
        z.writestr("xl/_rels/workbook.xml.rels", '<?xml version="1.0" encoding="UTF-8" standalone="yes"?><Relationships xmlns="http://schemas.openxmlformats.org/package/2006/relationships">' + rels + "</Relationships>")
        for i, n in enumerate(names):
            rows = table(wb, n) if tables is None else tables[n]
            out = ['<?xml version="1.0" encoding="UTF-8" standalone="yes"?><worksheet xmlns="http://schemas.openxmlformats.org/spreadsheetml/2006/main"><sheetData>']
            for r, row in enumerate(rows):
                cells = []
                for c, v in enumerate(row):
                    if v is None:
                        continue
                    ref = f"{_col(c)}{r + 1}"
                    if isinstance(v, bool):
                        cells.append(f'<c r="{ref}" t="b"><v>{int(v)}</v></c>')
                    elif isinstance(v, (int, float)):
                        cells.append(f'<c r="{ref}" t="n"><v>{v!r}</v></c>')
                    else:
                        cells.append(f'<c r="{ref}" t="inlineStr"><is><t xml:space="preserve">{escape(str(v))}</t></is></c>')
                out.append(f'<row r="{r + 1}">' + "".join(cells) + "</row>")
            out.append("</sheetData></worksheet>")
            z.writestr(f"xl/worksheets/sheet{i + 1}.xml", "".join(out))
    return b.getvalue()


def _xlsx_cell(v):
    if isinstance(v, (tuple, list)) and v and v[0] == "date":
        import datetime

        return datetime.datetime(1899, 12, 30) + datetime.timedelta(days=v[1])
    return v


# ---------------------------------------------------------------- BIFF8 --------------
def _rec(rt, data=b""):
    assert len(data) <= 8224, "record exceeds the CONTINUE limit"
    return struct.pack("<HH", rt, len(data)) + data


def _ustr(s, lenfmt="<H"):
    try:
        b = s.encode("latin-1")
        flag = 0
        n = len(s)
    except UnicodeEncodeError:
        b = s.encode("utf-16-le")
        flag = 1
        n = len(b) // 2
    return struct.pack(lenfmt, n) + bytes([flag]) + b


def _bof(t):
    return _rec(0x0809, struct.pack("<HHHHII", 0x0600, t, 0x0DBB, 0x07CC, 0, 6))


def _xf(fmt):
    return _rec(0x00E0, struct.pack("<HHH", 0, fmt, 0x0001) + b"\x00" * 14)


def to_xls(wb, tables=None):
    names = sheet_names(wb) if tables is None else list(tables)
    streams = []
    for s in names:
        rows = table(wb, s) if tables is None else tables[s]
        st = _bof(0x0010)
        ncols = max((len(r) for r in rows), default=0)
        st += _rec(0x0200, struct.pack("<IIHHH", 0, len(rows), 0, ncols, 0))
        for r, row in enumerate(rows):
            for c, v in enumerate(row):
                if v is None:
                    continue
                if isinstance(v, bool):
                    st += _rec(0x0205, struct.pack("<HHHBB", r, c, 0, int(v), 0))
                elif isinstance(v, (int, float)):
                    st += _rec(0x0203, struct.pack("<HHHd", r, c, 0, float(v)))
                elif isinstance(v, (tuple, list)):
                    st += _rec(0x0203, struct.pack("<HHHd", r, c, 1, float(v[1])))
                else:
                    st += _rec(0x0204, struct.pack("<HHH", r, c, 0) + _ustr(v))
        st += _rec(0x000A)
        streams.append(st)

    def globals_(offsets):
        g = _bof(0x0005)
        g += _rec(0x0042, struct.pack("<H", 1200))
        g += _rec(0x0022, struct.pack("<H", 0))
        g += _rec(0x0031, struct.pack("<HHHHHBBBB", 200, 0, 0x7FFF, 400, 0, 0, 0, 0, 0) + _ustr("Arial", "<B"))
        g += _rec(0x041E, struct.pack("<H", 164) + _ustr("yyyy-mm-dd"))
        g += _xf(0) + _xf(164)
        for name, off in zip(names, offsets):
            g += _rec(0x0085, struct.pack("<IBB", off, 0, 0) + _ustr(name, "<B"))
        return g + _rec(0x000A)

    g0 = globals_([0] * len(names))
    offs = []
    pos = len(g0)
    for st in streams:
        offs.append(pos)
        pos += len(st)
    return globals_(offs) + b"".join(streams)


def render(wb, fmt, tables=None):
    """-> (source, convert kwargs)"""
    if fmt == "dict":
        return wb, {}
    if fmt == "md":
        return to_md(wb), {"file_type": ".md"}
    if fmt == "csv":
        return to_csv(wb), {"file_type": ".csv"}
    if fmt in ("xlsx", "xlsm"):
        return to_xlsx_raw(wb, tables), {"file_type": "." + fmt}
    if fmt == "xlsx-openpyxl":
        return to_xlsx(wb, tables), {"file_type": ".xlsx"}
    if fmt == "xls":
        return to_xls(wb, tables), {"file_type": ".xls"}
    raise ValueError(fmt)
