"""Explicit small-scope explorer: block partitioning, process pool, merge, findings,
replays, evidence.  A property module (props/Cxx.py) provides

    ID, LEVEL, RULE, ASSUMPTIONS
    blocks(tier)            -> iterable of small picklable block descriptors
    expand(block, tier)     -> iterable of JSON-serialisable cases (dicts)
    check_one(case)         -> dict(outcome=str, nt=bool, viol=[(sig, detail)], tr=int,
                                    key=optional canonical key, unexp=bool)
    required_outcomes(tier) -> set of outcome labels that a non-vacuous run must see
    BOUND[tier]             -> human readable bound

The real implementation is the transition function: every case is executed on pyxform
imported from $VERIF_REPO (default /repo).
"""

import collections
import hashlib
import importlib
import json
import multiprocessing as mp
import os
import subprocess
import sys
import time
import traceback

VERIF = os.path.dirname(os.path.dirname(os.path.abspath(__file__)))
REPO = os.environ.get("VERIF_REPO", "/repo")
NPROC = int(os.environ.get("VERIF_JOBS", "16"))
MAX_VIOL_PER_SIG_PER_BLOCK = 2
MAX_REPORTED_SIGS = 8


def bind_repo():
    """Make sure pyxform is imported from the tree under verification."""
    if sys.path[0] != REPO:
        sys.path.insert(0, REPO)
    if os.environ.get("VERIF_SCHEDLOCK") == "1" and "pyxform" not in sys.modules:
        # C14: module-level locks created while pyxform is imported become scheduler-aware
        # (xmc.sched); all sub-modules are imported now so that no lazy import happens in a thread.
        import pkgutil

        from xmc import sched

        with sched.lock_shim():
            import pyxform

            for m in pkgutil.walk_packages(pyxform.__path__, "pyxform."):
                try:
                    importlib.import_module(m.name)
                except Exception:  # noqa: BLE001  (optional sub-modules)
                    pass
    import pyxform

    f = os.path.realpath(pyxform.__file__)
    if not f.startswith(os.path.realpath(REPO) + os.sep):
        raise RuntimeError(f"pyxform imported from {f}, expected under {REPO}")


def load_prop(pid):
    if VERIF not in sys.path:
        sys.path.insert(1, VERIF)
    return importlib.import_module(f"props.{pid}")


def khash(obj) -> int:
    s = json.dumps(obj, sort_keys=True, ensure_ascii=False, default=str)
    return int.from_bytes(hashlib.blake2b(s.encode("utf-8"), digest_size=8).digest(), "big")


_WORKER_BLOCKS = []  # blocks this worker process has executed so far (for history-dependent violations)


def _run_block(args):
    pid, tier, bidx, block = args
    prior = list(_WORKER_BLOCKS)
    _WORKER_BLOCKS.append(block)
    out = {
        "bidx": bidx,
        "n": 0,
        "tr": 0,
        "outcomes": collections.Counter(),
        "keys": set(),
        "nt_keys": set(),
        "viol": {},
        "viol_count": collections.Counter(),
        "unexp": 0,
        "unexp_samples": [],
        "sample": None,
        "internal": None,
        "extra": collections.Counter(),
    }
    try:
        bind_repo()
        prop = load_prop(pid)
        for cidx, case in enumerate(prop.expand(block, tier)):
            r = prop.check_one(case)
            out["n"] += 1
            out["tr"] += int(r.get("tr", 1))
            out["outcomes"][r["outcome"]] += 1
            k = khash(r["key"]) if r.get("key") is not None else khash(case)
            out["keys"].add(k)
            if r.get("nt"):
                out["nt_keys"].add(k)
            if r.get("unexp"):
                out["unexp"] += 1
                if len(out["unexp_samples"]) < 2:
                    out["unexp_samples"].append({"case": case, "why": r.get("why", "")})
            for kx, vx in (r.get("extra") or {}).items():
                out["extra"][kx] += vx
            for sig, detail in r.get("viol", ()):
                out["viol_count"][sig] += 1
                lst = out["viol"].setdefault(sig, [])
                if len(lst) < MAX_VIOL_PER_SIG_PER_BLOCK:
                    lst.append({"case": case, "detail": detail, "history": {"block": block, "index": cidx, "tier": tier, "prior_blocks": prior}})
            if out["sample"] is None:
                out["sample"] = {"case": case, "outcome": r["outcome"]}
    except Exception:
        out["internal"] = traceback.format_exc()
    return out


def load_findings():
    p = os.path.join(VERIF, "known_findings.json")
    if not os.path.exists(p):
        return []
    with open(p) as f:
        return json.load(f)["findings"]


def match_open(findings, pid, sig):
    for e in findings:
        if e["property"] == pid and e["status"] == "open" and e["signature"] == sig:
            return e
    return None


def case_size(case):
    return len(json.dumps(case, default=str))


def write_replay(pid, sig, item):
    h = hashlib.blake2b(
        json.dumps([sig, item["case"]], sort_keys=True, default=str).encode(), digest_size=6
    ).hexdigest()
    path = os.path.join(VERIF, "replays", f"{pid}-{h}.json")
    with open(path, "w") as f:
        json.dump(
            {"property": pid, "signature": sig, "detail": item["detail"], "case": item["case"], "history": item.get("history")},
            f,
            indent=1,
            ensure_ascii=False,
            default=str,
        )
    test = os.path.join(VERIF, "replays", f"test_{pid}_{h}.py")
    with open(test, "w") as f:
        f.write(
            "# generated: replays one recorded violation without the explorer\n"
            "import subprocess, sys\n"
            f"def test_replay():\n"
            f"    r = subprocess.run([{VERIF + '/check'!r}, {pid!r}, '--replay', {path!r}])\n"
            f"    assert r.returncode == 0, 'violation reproduces'\n"
            "if __name__ == '__main__':\n    test_replay()\n"
        )
    return path


def confirm_replay(pid, path, sig):
    """Re-execute the single case twice in fresh processes; it must fail identically."""
    seen = []
    for _ in range(2):
        r = subprocess.run(
            [os.path.join(VERIF, "check"), pid, "--replay", path, "--sig-only"],
            capture_output=True,
            text=True,
        )
        seen.append((r.returncode, sig in r.stdout.splitlines()))
    return all(rc == 1 and ok for rc, ok in seen), seen


def replay(pid, path, sig_only=False):
    bind_repo()
    prop = load_prop(pid)
    with open(path) as f:
        rec = json.load(f)
    r = prop.check_one(rec["case"])
    sigs = [s for s, _ in r.get("viol", ())]
    hist_note = ""
    if not sigs and rec.get("history") and os.environ.get("VERIF_NO_HISTORY") != "1":
        # not reproducible on its own: replay the cases that preceded it in its block, in this fresh process
        h = rec["history"]
        tup = lambda b: tuple(b) if isinstance(b, list) else b  # noqa: E731

        def run_block_prefix():
            for i, case in enumerate(prop.expand(tup(h["block"]), h["tier"])):
                rr = prop.check_one(case)
                if i >= h["index"]:
                    return rr
            return {"viol": []}

        r = run_block_prefix()
        sigs = [s for s, _ in r.get("viol", ())]
        nprior = 0
        if not sigs and h.get("prior_blocks"):
            # state may come from blocks the same worker process executed earlier
            for pb in h["prior_blocks"]:
                for case in prop.expand(tup(pb), h["tier"]):
                    prop.check_one(case)
                    nprior += 1
            r = run_block_prefix()
            sigs = [s for s, _ in r.get("viol", ())]
        if sigs:
            hist_note = (f" (only after the {h['index']} preceding cases of its block" + (f" and {nprior} cases of earlier blocks" if nprior else "")
                         + " in the same process: state is carried between conversions)")
    if sig_only:
        for s in sigs:
            print(s)
        return 1 if sigs else 0
    print(f"replay {path}: outcome={r['outcome']}{hist_note}")
    for s, d in r.get("viol", ()):
        print(f"  violation signature={s}\n  detail={d}")
    if sigs:
        print(f"VIOLATION property={pid} replay={path}")
        return 1
    print("no violation on this tree")
    return 0


def run(pid, tier, seed):
    t0 = time.time()
    bind_repo()
    prop = load_prop(pid)
    findings = load_findings()
    blocks = list(prop.blocks(tier))
    only = os.environ.get("VERIF_BLOCKS")  # dev aid: run the blocks whose repr contains this text (never used by registered commands)
    if only:
        blocks = [b for b in blocks if only in repr(b)]
    nblocks = len(blocks)
    order = list(range(nblocks))
    if nblocks:
        rot = seed % nblocks
        order = order[rot:] + order[:rot]  # dispatch order only; never changes the space
    tasks = [(pid, tier, i, blocks[i]) for i in order]
    tot = {
        "n": 0,
        "tr": 0,
        "outcomes": collections.Counter(),
        "keys": set(),
        "nt_keys": set(),
        "viol": {},
        "viol_count": collections.Counter(),
        "unexp": 0,
        "unexp_samples": [],
        "samples": {},
        "internal": [],
        "extra": collections.Counter(),
    }
    ctx = mp.get_context("fork")
    nproc = min(NPROC, max(1, nblocks))
    with ctx.Pool(nproc) as pool:
        for out in pool.imap_unordered(_run_block, tasks, chunksize=1):
            tot["n"] += out["n"]
            tot["tr"] += out["tr"]
            tot["outcomes"].update(out["outcomes"])
            tot["keys"] |= out["keys"]
            tot["nt_keys"] |= out["nt_keys"]
            tot["viol_count"].update(out["viol_count"])
            tot["extra"].update(out["extra"])
            for sig, lst in out["viol"].items():
                cur = tot["viol"].setdefault(sig, [])
                for it in lst:
                    cur.append((out["bidx"], it))
            tot["unexp"] += out["unexp"]
            for s in out["unexp_samples"]:
                if len(tot["unexp_samples"]) < 5:
                    tot["unexp_samples"].append(s)
            if out["sample"] is not None and len(tot["samples"]) < 400:
                tot["samples"][out["bidx"]] = out["sample"]
            if out["internal"]:
                tot["internal"].append((out["bidx"], out["internal"]))

    status = 0
    lines = []
    if tot["internal"]:
        for bidx, tb in tot["internal"][:3]:
            print(f"INTERNAL-ERROR block={bidx} {blocks[bidx]!r}\n{tb}", file=sys.stderr)
        status = 2

    # vacuity / coverage
    required = set(prop.required_outcomes(tier)) if hasattr(prop, "required_outcomes") else set()
    missing = sorted(required - set(tot["outcomes"]))
    coverage_ok = not missing and tot["unexp"] == 0
    if missing:
        print(f"COVERAGE: property={pid} outcomes never observed: {missing}")
    if tot["unexp"]:
        print(
            f"COVERAGE: property={pid} unexpected_rejections={tot['unexp']} "
            f"(forms the reference model accepts but the implementation refused)"
        )

    # findings
    known_hit = {}
    new_sigs = []
    for sig in sorted(tot["viol"], key=lambda s: (min(b for b, _ in tot["viol"][s]), s)):
        e = match_open(findings, pid, sig)
        if e is not None:
            known_hit[sig] = e
        else:
            new_sigs.append(sig)
    for sig, e in known_hit.items():
        print(f"KNOWN-FINDING: property={pid} {e['what']} [signature={sig} observed={tot['viol_count'][sig]}]")
    replay_paths = []
    if new_sigs and os.environ.get("VERIF_LIST_SIGS"):
        for sig in new_sigs:
            print(f"  SIG {tot['viol_count'][sig]:6d} {sig}")
    if new_sigs and status == 0:
        for sig in new_sigs[:MAX_REPORTED_SIGS]:
            items = sorted(tot["viol"][sig], key=lambda bi: (case_size(bi[1]["case"]), bi[0]))
            item = items[0][1]
            path = write_replay(pid, sig, item)
            ok, seen = confirm_replay(pid, path, sig)
            if not ok:
                print(
                    f"INTERNAL-ERROR property={pid} violation {sig!r} did not reproduce "
                    f"identically in fresh processes: {seen} ({path})",
                    file=sys.stderr,
                )
                status = 2
                continue
            print(f"  signature={sig} count={tot['viol_count'][sig]} detail={item['detail']}"[:1500])
            print(f"VIOLATION property={pid} replay={path}")
            replay_paths.append(path)
            if status == 0:
                status = 1
        if len(new_sigs) > MAX_REPORTED_SIGS:
            print(f"  (+{len(new_sigs) - MAX_REPORTED_SIGS} further distinct signatures not written out)")

    wall = time.time() - t0
    samples = [tot["samples"][k] for k in sorted(tot["samples"])[:3]]
    if not samples:
        samples = [{"note": "no case executed"}]
    cov = {
        "states": len(tot["keys"]),
        "transitions": tot["tr"],
        "traces_validated_against_impl": tot["n"],
        "evaluations": tot["n"],
        "distinct_nontrivial": len(tot["nt_keys"]),
        "rule": prop.RULE,
        "samples": samples,
        "exhaustive": bool(status == 0 and coverage_ok and not only),
        "bound": prop.BOUND.get(tier, ""),
        "blocks": nblocks,
        "distinct_outcomes": len(tot["outcomes"]),
        "outcomes": dict(tot["outcomes"].most_common(60)),
        "unexpected_rejections": tot["unexp"],
        "unexpected_rejection_samples": tot["unexp_samples"][:3],
        "known_findings_observed": {s: tot["viol_count"][s] for s in known_hit},
        "new_violation_signatures": new_sigs[:MAX_REPORTED_SIGS],
        "missing_required_outcomes": missing,
        "repo": REPO,
    }
    if tot["extra"]:
        cov["counters"] = dict(tot["extra"])
    if hasattr(prop, "extra_coverage"):
        cov.update(prop.extra_coverage(tier, tot))
    ev = {
        "property_id": pid,
        "tier": tier,
        "seed": seed,
        "level": prop.LEVEL,
        "coverage": cov,
        "assumptions": list(prop.ASSUMPTIONS),
        "wall_s": round(wall, 2),
        "violations": sum(tot["viol_count"][s] for s in new_sigs),
    }
    os.makedirs(os.path.join(VERIF, "evidence"), exist_ok=True)
    evp = os.environ.get("VERIF_EVIDENCE_DIR", os.path.join(VERIF, "evidence"))
    with open(os.path.join(evp, f"{pid}.json"), "w") as f:
        json.dump(ev, f, indent=1, ensure_ascii=False, default=str)
    print(
        f"{pid} tier={tier} seed={seed} executions={tot['n']} states={len(tot['keys'])} "
        f"transitions={tot['tr']} nontrivial={len(tot['nt_keys'])} "
        f"outcomes={len(tot['outcomes'])} known={len(known_hit)} new={len(new_sigs)} "
        f"wall={wall:.1f}s exit={status}"
    )
    return status
