"""Observation layer: strict, namespace-aware parse of an XForm (expat via ElementTree is the
verdict-bearing parser) and extraction of the parts the oracles look at.  Imports nothing
from pyxform."""

import re
import xml.etree.ElementTree as ET

XF = "http://www.w3.org/2002/xforms"
XH = "http://www.w3.org/1999/xhtml"
JR = "http://openrosa.org/javarosa"
ORX = "http://openrosa.org/xforms"
ODK = "http://www.opendatakit.org/xforms"
EV = "http://www.w3.org/2001/xml-events"
ENT = "http://www.opendatakit.org/xforms/entities"
X = "{%s}" % XF
H = "{%s}" % XH
J = "{%s}" % JR
TEMPLATE = J + "template"


def local(tag):
    return tag.rsplit("}", 1)[-1] if isinstance(tag, str) else tag


def ns(tag):
    return tag[1:].split("}", 1)[0] if tag.startswith("{") else ""


class ParseFailure(Exception):
    pass


def parse(xml_text):
    """Strict parse. Raises ParseFailure when the text is not one well-formed,
    namespace-valid XML document."""
    try:
        data = xml_text.encode("utf-8") if isinstance(xml_text, str) else xml_text
        return ET.fromstring(data)
    except ET.ParseError as e:
        raise ParseFailure(str(e)) from None
    except (UnicodeError, ValueError) as e:
        raise ParseFailure(repr(e)) from None


def nsmap_of(xml_text):
    """prefix -> uri declarations on the root start tag (textual, for namespace checks)."""
    m = re.search(r"<h:html([^>]*)>", xml_text)
    out = {}
    if m:
        for pm in re.finditer(r'\sxmlns(?::([^=\s]+))?="([^"]*)"', m.group(1)):
            out[pm.group(1) or ""] = pm.group(2)
    return out


def tokens(el):
    """mixed content of el as a token list: text pieces and ("output", value) / (tag, attrs)"""
    out = []
    if el.text:
        out.append(el.text)
    for c in el:
        out.append((local(c.tag), tuple(sorted((local(k), v) for k, v in c.attrib.items()))))
        if c.tail:
            out.append(c.tail)
    return out


def flat_text(el):
    """text with outputs rendered as ${value}"""
    s = el.text or ""
    for c in el:
        if local(c.tag) == "output":
            s += "${%s}" % (c.get("value") or "").strip()
        else:
            s += "<%s>" % local(c.tag)
        s += c.tail or ""
    return s


class Obs:
    """Parsed XForm with lazily extracted views."""

    def __init__(self, xml_text):
        self.text = xml_text
        self.root = parse(xml_text)
        self.head = self.root.find(H + "head")
        self.body = self.root.find(H + "body")
        self.model = self.head.find(X + "model") if self.head is not None else None
        insts = self.model.findall(X + "instance") if self.model is not None else []
        self.instances = insts
        self.primary = insts[0][0] if insts and len(insts[0]) else None
        self._paths = None
        self._itext = None

    # ---- primary instance -------------------------------------------------------------
    @property
    def paths(self):
        """absolute path -> element for the non-template copy of the primary instance"""
        if self._paths is None:
            paths = {}
            dup = []
            tmpl = {}

            def walk(el, path, in_t):
                seen = set()
                seen_t = set()
                for c in el:
                    t = in_t or TEMPLATE in c.attrib
                    nm = local(c.tag)
                    p = path + "/" + nm
                    if t:
                        if not in_t:
                            if nm in seen_t:
                                dup.append(p + "[template]")
                            seen_t.add(nm)
                        tmpl.setdefault(p, []).append(c)
                    else:
                        if nm in seen:
                            dup.append(p)
                        seen.add(nm)
                        paths[p] = c
                    walk(c, p, t)

            rootp = "/" + local(self.primary.tag)
            paths[rootp] = self.primary
            walk(self.primary, rootp, False)
            self._paths = paths
            self.dup_siblings = dup
            self.template_paths = tmpl
        return self._paths

    def resolves(self, p):
        paths = self.paths
        if "/@" in p:
            n, a = p.rsplit("/@", 1)
            el = paths.get(n)
            if el is None:
                return False
            return any(local(k) == a.split(":")[-1] for k in el.attrib)
        return p in paths

    def binds(self):
        return [dict(b.attrib) for b in self.model.findall(X + "bind")]

    def bind_map(self):
        out = {}
        for b in self.model.findall(X + "bind"):
            out.setdefault(b.get("nodeset"), []).append(b)
        return out

    # ---- itext ------------------------------------------------------------------------
    @property
    def itext(self):
        """list of (lang, is_default, {id: [(form, value-element)]}) in document order"""
        if self._itext is None:
            out = []
            it = self.model.find(X + "itext")
            if it is not None:
                for tr in it.findall(X + "translation"):
                    texts = []
                    for t in tr.findall(X + "text"):
                        vals = [(v.get("form"), v) for v in t.findall(X + "value")]
                        texts.append((t.get("id"), vals))
                    out.append((tr.get("lang"), tr.get("default"), texts))
            self._itext = out
        return self._itext

    # ---- body -------------------------------------------------------------------------
    def body_controls(self):
        """yield (element, tag, ref, depth-path of control ancestors) for every body element
        carrying ref/nodeset, excluding label/hint/value/itemset internals"""
        out = []

        def walk(el, anc):
            for c in el:
                tag = local(c.tag)
                if tag in ("label", "hint", "item", "itemset", "value", "output"):
                    continue
                r = c.get("ref") if c.get("ref") is not None else c.get("nodeset")
                out.append((c, tag, r, anc))
                walk(c, (*anc, c))

        walk(self.body, ())
        return out

    def secondary_instances(self):
        out = []
        for i in self.instances[1:]:
            out.append((i.get("id"), i.get("src"), i))
        return out


ITEXT_RE = re.compile(r"^jr:itext\('(.*)'\)$")


def itext_id(ref):
    m = ITEXT_RE.match(ref or "")
    return m.group(1) if m else None
