"""Frozen reference type table (XLSForm documentation, reconciled once with the pinned tree;
imports nothing from pyxform).  type -> (body tag | None, mediatype | None, bind type,
preload, preloadParams, extra bind defaults)."""

def _t(tag, btype, mediatype=None, preload=None, params=None, **bind):
    return {"tag": tag, "mediatype": mediatype, "btype": btype, "preload": preload,
            "params": params, "bind": bind}

TYPES = {
    # visible simple inputs
    "text": _t("input", "string"),
    "string": _t("input", "string"),
    "integer": _t("input", "int"),
    "int": _t("input", "int"),
    "decimal": _t("input", "decimal"),
    "date": _t("input", "date"),
    "time": _t("input", "time"),
    "dateTime": _t("input", "dateTime"),
    "datetime": _t("input", "dateTime"),
    "geopoint": _t("input", "geopoint"),
    "gps": _t("input", "geopoint"),
    "location": _t("input", "geopoint"),
    "geotrace": _t("input", "geotrace"),
    "geoshape": _t("input", "geoshape"),
    "barcode": _t("input", "barcode"),
    "note": _t("input", "string", readonly="true()"),
    "acknowledge": _t("trigger", "string"),
    "range": _t("range", "int"),
    # uploads
    "image": _t("upload", "binary", "image/*"),
    "photo": _t("upload", "binary", "image/*"),
    "audio": _t("upload", "binary", "audio/*"),
    "video": _t("upload", "binary", "video/*"),
    "file": _t("upload", "binary", "application/*"),
    # no control
    "calculate": _t(None, "string"),
    "hidden": _t(None, "string"),
    # metadata (preloads)
    "start": _t(None, "dateTime", preload="timestamp", params="start"),
    "end": _t(None, "dateTime", preload="timestamp", params="end"),
    "today": _t(None, "date", preload="date", params="today"),
    "deviceid": _t(None, "string", preload="property", params="deviceid"),
    "imei": _t(None, "string", preload="property", params="deviceid"),
    "phonenumber": _t(None, "string", preload="property", params="phonenumber"),
    "subscriberid": _t(None, "string", preload="property", params="subscriberid"),
    "simserial": _t(None, "string", preload="property", params="simserial"),
    "username": _t(None, "string", preload="property", params="username"),
    "email": _t(None, "string", preload="property", params="email"),
}

# select families: spelling of the type cell -> body tag
SELECT1 = ["select_one", "select one", "select1", "select one from"]
SELECTN = ["select_multiple", "select all that apply", "select all that apply from"]

# types whose rows carry no label requirement
LABEL_OPTIONAL = {"calculate", "hidden", "start", "end", "today", "deviceid", "imei", "phonenumber",
                  "subscriberid", "simserial", "username", "email", "start-geopoint", "audit",
                  "background-audio", "background-geopoint", "xml-external", "csv-external"}

# deprecated metadata types that draw a warning
DEPRECATED_META = {"imei": "deviceid", "subscriberid": None, "simserial": None, "phonenumber": None}

VISIBLE = {k for k, v in TYPES.items() if v["tag"]}
