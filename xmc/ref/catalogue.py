"""Catalogue of minimal valid rows, one per question type / variant (frozen data)."""

CHOICES = [
    {"list_name": "c", "name": "x", "label": "X"},
    {"list_name": "c", "name": "y", "label": "Y"},
]
EXT_CHOICES = [
    {"list_name": "e", "name": "p", "label": "P", "state": "s1"},
    {"list_name": "e", "name": "q", "label": "Q", "state": "s2"},
]
OSM = [{"list_name": "o", "name": "building", "label": "Building"}]


def _q(t, **kw):
    r = {"type": t, "name": "q", "label": "Q"}
    r.update(kw)
    return r


# label -> (row under test, set of extra sheets needed, needs a preceding text question "t0")
TYPE_ROWS = {
    "text": (_q("text"), (), False),
    "text-rows": (_q("text", parameters="rows=3"), (), False),
    "text-multiline": (_q("text", appearance="multiline"), (), False),
    "integer": (_q("integer"), (), False),
    "decimal": (_q("decimal"), (), False),
    "date": (_q("date"), (), False),
    "time": (_q("time"), (), False),
    "dateTime": (_q("dateTime"), (), False),
    "geopoint": (_q("geopoint"), (), False),
    "geopoint-params": (_q("geopoint", parameters="capture-accuracy=10 warning-accuracy=20 allow-mock-accuracy=true"), (), False),
    "geotrace": (_q("geotrace"), (), False),
    "geoshape": (_q("geoshape"), (), False),
    "barcode": (_q("barcode"), (), False),
    "note": (_q("note"), (), False),
    "acknowledge": (_q("acknowledge"), (), False),
    "range": (_q("range"), (), False),
    "range-params": (_q("range", parameters="start=1 end=9 step=2"), (), False),
    "range-decimal": (_q("range", parameters="start=0.5 end=2.5 step=0.5"), (), False),
    "image": (_q("image"), (), False),
    "image-maxpx": (_q("image", parameters="max-pixels=640"), (), False),
    "image-app": (_q("image", parameters="app=com.example.app", appearance="annotate"), (), False),
    "audio": (_q("audio"), (), False),
    "audio-quality": (_q("audio", parameters="quality=low"), (), False),
    "video": (_q("video"), (), False),
    "file": (_q("file"), (), False),
    "calculate": ({"type": "calculate", "name": "q", "calculation": "1 + 1"}, (), False),
    "hidden": ({"type": "hidden", "name": "q"}, (), False),
    "start": ({"type": "start", "name": "q"}, (), False),
    "end": ({"type": "end", "name": "q"}, (), False),
    "today": ({"type": "today", "name": "q"}, (), False),
    "deviceid": ({"type": "deviceid", "name": "q"}, (), False),
    "phonenumber": ({"type": "phonenumber", "name": "q"}, (), False),
    "username": ({"type": "username", "name": "q"}, (), False),
    "email": ({"type": "email", "name": "q"}, (), False),
    "subscriberid": ({"type": "subscriberid", "name": "q"}, (), False),
    "simserial": ({"type": "simserial", "name": "q"}, (), False),
    "audit": ({"type": "audit", "name": "audit"}, (), False),
    "audit-params": ({"type": "audit", "name": "audit", "parameters": "location-priority=balanced location-min-interval=60 location-max-age=300 track-changes=true"}, (), False),
    "start-geopoint": ({"type": "start-geopoint", "name": "q"}, (), False),
    "background-audio": ({"type": "background-audio", "name": "q"}, (), False),
    "background-geopoint": ({"type": "background-geopoint", "name": "q", "trigger": "${t0}"}, (), True),
    "xml-external": ({"type": "xml-external", "name": "q"}, (), False),
    "csv-external": ({"type": "csv-external", "name": "q"}, (), False),
    "select_one": (_q("select_one c"), ("choices",), False),
    "select_one-minimal": (_q("select_one c", appearance="minimal"), ("choices",), False),
    "select_one-or_other": (_q("select_one c or_other"), ("choices",), False),
    "select_one-filter": (_q("select_one c", choice_filter="name = ${t0}"), ("choices",), True),
    "select_one-randomize": (_q("select_one c", parameters="randomize=true seed=3"), ("choices",), False),
    "select_multiple": (_q("select_multiple c"), ("choices",), False),
    "select_multiple-or_other": (_q("select_multiple c or_other"), ("choices",), False),
    "rank": (_q("rank c"), ("choices",), False),
    "select_one_from_file-csv": (_q("select_one_from_file f.csv"), (), False),
    "select_one_from_file-xml": (_q("select_one_from_file f.xml", parameters="value=v label=l"), (), False),
    "select_multiple_from_file-geojson": (_q("select_multiple_from_file f.geojson"), (), False),
    "select_one_external": (_q("select_one_external e", choice_filter="state=${t0}"), ("external_choices",), True),
    "select_one-search": (_q("select_one c", appearance="search('f')"), ("choices",), False),
    "select_one-from-repeat": None,  # built specially where needed
    "osm": (_q("osm o"), ("osm",), False),
    "osm-nolist": (_q("osm"), (), False),
    "trigger-calc": ({"type": "calculate", "name": "q", "calculation": "${t0} + 1", "trigger": "${t0}"}, (), True),
    "dyn-default": (_q("text", default="now()"), (), False),
    "static-default": (_q("integer", default="5"), (), False),
}
TYPE_ROWS = {k: v for k, v in TYPE_ROWS.items() if v is not None}

SHEETS = {"choices": CHOICES, "external_choices": EXT_CHOICES, "osm": OSM}


def form_for(label, context="top", decorate=None):
    """workbook dict holding the catalogue row `label` in `context` (top|group|repeat)."""
    row, sheets, needs_t0 = TYPE_ROWS[label]
    row = dict(row)
    if decorate:
        decorate(row)
    pre = [{"type": "text", "name": "t0", "label": "T0"}] if needs_t0 else []
    if context == "top" or row["type"] == "audit":
        rows = [*pre, row]
    else:
        kind = "group" if context == "group" else "repeat"
        rows = [*pre, {"type": f"begin {kind}", "name": "w", "label": "W"}, row, {"type": f"end {kind}"}]
    wb = {"survey": rows}
    for s in sheets:
        wb[s] = [dict(r) for r in SHEETS[s]]
    return wb
