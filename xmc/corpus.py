"""Frozen corpus of realistic workbooks (xmc/ref/corpus.json, written once by tools_corpus.py from the workbooks and
markdown literals of the repository's test data).  Plain {sheet: rows} dicts with string cells: inputs, not logic.
The checks enumerate it completely (every form x every configuration of the check), beside their generated spaces:
the generated alphabets are tiny by design, the corpus supplies feature *combinations* nobody thought of enumerating."""

import json
import os

_C = None


def load():
    global _C
    if _C is None:
        with open(os.path.join(os.path.dirname(os.path.abspath(__file__)), "ref", "corpus.json"), encoding="utf-8") as f:
            _C = json.load(f)
    return _C


def forms(tier=None):
    """(id, name, workbook) in file order"""
    for e in load():
        yield e["id"], e["name"], e["wb"]


def setting(wb, key, default=None):
    for row in wb.get("settings") or ():
        for k, v in row.items():
            if k.strip().lower() == key and v not in (None, ""):
                return v
    return default
