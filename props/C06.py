"""C06 - user text is data, never markup."""

import functools
import itertools

from xmc import observe as O
from xmc import render
from xmc.impl import run_convert
from xmc.pathmodel import Path, align, norm_ws

ID = "C06"
LEVEL = "model_checking"
TECHNIQUE = "explicit-state small-scope exploration: every string of bounded length over an adversarial fragment alphabet x every text-bearing channel x reference placement x language mode x container, executed on the implementation; recovered text compared character for character and document skeleton compared with the inert-text run"
CLAIM = ("Every concatenation up to the bound of 32 adversarial fragments (XML metacharacters, entity/CDATA/comment look-alikes, quotes, "
         "braces, astral and RTL Unicode, edge/double spaces) is placed in each of 15 text-bearing channels, with and without embedded "
         "references, in single- and two-language forms; the real converter runs and a strict parser must recover the text from the "
         "channel's place, and the element/attribute skeleton must equal that of the same form holding the inert text 'x'.")
RULE = (
    "case = (channel, string, reference placement, language mode, container); non-trivial = accepted case whose string contains at "
    "least one XML-significant character (< > & quote ] or an entity/comment/CDATA look-alike); distinct by canonical case hash"
)
ASSUMPTIONS = [
    "documented collapsing: survey-sheet cells are stripped and whitespace runs collapsed; readers of md/xlsx strip cell edges; mixed content gets one boundary space",
    "C0/C1 control characters, newline and tab are outside the statement's alphabet and not explored",
]
BOUND = {
    "quick": "strings of <=2 fragments (1056) x 16 channels x applicable reference placements x {one, two languages} on dict input; single fragments additionally through md and xlsx",
    "thorough": "strings of <=3 fragments (33 824) x 16 channels x reference placements x language modes on dict input; strings of <=2 through md and xlsx",
}
# as-built additions to the bound (kept next to BOUND so that the evidence reports them)
BOUND = {k: v + "; plus: " + 'three function look-alike fragments (pulldata(..), a bare instance( and instance(x)); a question with a guidance hint and media emitted before the cell under test; the same text in a second cell (other row / other language) and a reference-bearing neighbour cell emitted just before the cell under test' for k, v in BOUND.items()}

FRAGS = ["<", ">", "&", '"', "'", "]]>", "&amp;", "&#60;", "&lt;", "&quot;", "&nbsp;", "<!--", "-->", "<![CDATA[",
         '<output value="x"/>', "</label>", "{", "}", "$", "a", "é", "\U0001F600", "שלום", "a  b", " ", "-",
         "pulldata('pf', 'a', 'b', 'c')", "instance(", "instance(x) ", "%", "% s", "%(foo)s"]  # (instance('x')/.. in a label is an output by design, like ${x}; a message that is literally jr:itext('id') is passed through as a reference)
SIGNIFICANT = set("<>&\"']")
CHANNELS = ["label", "hint", "guidance_hint", "constraint_message", "required_message", "glabel", "clabel",
            "cextra", "default", "form_title", "version", "appearance", "attrval", "instval", "bindval", "looplabel"]
OUTPUT_CH = {"label", "hint", "guidance_hint", "constraint_message", "required_message", "glabel", "clabel", "looplabel"}
SUBST_CH = {"instval", "bindval"}
LANG_CH = {"label", "hint", "guidance_hint", "constraint_message", "required_message", "glabel", "clabel"}
SURVEY_CH = {"label", "hint", "guidance_hint", "constraint_message", "required_message", "glabel", "default",
             "appearance", "instval", "bindval", "looplabel"}


def strings(n):
    for L in range(1, n + 1):
        for combo in itertools.product(FRAGS, repeat=L):
            yield "".join(combo)


def blocks(tier):
    for ci in range(len(CHANNELS)):
        for first in range(len(FRAGS)):
            yield (ci, first)


def expand(block, tier):
    ci, first = block
    ch = CHANNELS[ci]
    n = 2 if tier == "quick" else 3
    for L in range(1, n + 1):
        for rest in itertools.product(FRAGS, repeat=L - 1):
            s = FRAGS[first] + "".join(rest)
            if not s.strip() or "${" in s:
                continue  # "${" opens a reference: malformed-reference handling is C03's business
            if ch == "default" and any(c in s for c in "-*+|(["):
                continue  # would be a dynamic default (an expression), not text: C10's business
            if ch in ("appearance",) and "(" in s:
                continue
            refs = ["none"]
            if ch in OUTPUT_CH:
                refs += ["before", "after", "between"]
            elif ch in SUBST_CH:
                refs += ["between"]
            for ref in refs:
                for lang in ((False, True) if ch in LANG_CH else (False,)):
                    fmts = ["dict"]
                    if L <= (1 if tier == "quick" else 2) and ref in ("none", "between") and not lang:
                        fmts += ["md", "xlsx"]
                    for fmt in fmts:
                        yield {"ch": ch, "s": s, "ref": ref, "lang": lang, "fmt": fmt}
                    # plain text whose neighbour (the other language's cell of the same row, emitted just before it) holds a reference
                    if ch in LANG_CH and lang and ref == "none" and (L == 1 or tier == "thorough"):
                        yield {"ch": ch, "s": s, "ref": ref, "lang": lang, "fmt": "dict", "neigh": True}
                    # a question with a guidance hint (another itext form) emitted before the cell under test
                    if ch in OUTPUT_CH and (L == 1 or tier == "thorough") and ref in ("none", "after"):
                        yield {"ch": ch, "s": s, "ref": ref, "lang": lang, "fmt": "dict", "guide": True}
                    # the same text written in a second cell of the same kind (another row, or the other language)
                    if ch in OUTPUT_CH and (L == 1 or tier == "thorough") and ref in ("none", "between", "after"):
                        yield {"ch": ch, "s": s, "ref": ref, "lang": lang, "fmt": "dict", "twin": True}


def required_outcomes(tier):
    return {"ok"}


def with_ref(s, ref):
    return {"none": s, "before": "${t0} " + s, "after": s + " ${t0}", "between": s + " ${t0} " + s}[ref]


def build(ch, text, lang, twin=False, neigh=False, guide=False):
    q = {"type": "select_one c", "name": "q", "label": "Q"}
    q2 = {"type": "select_one c", "name": "q2", "label": "Q2"}
    rows = [{"type": "text", "name": "t0", "label": "T0"}, {"type": "begin group", "name": "g", "label": "G"}, q, {"type": "end group"}]
    if twin:
        rows[3:3] = [q2]
        rows += [{"type": "begin group", "name": "g2", "label": "G2"}, {"type": "text", "name": "t2", "label": "T2"}, {"type": "end group"}]
    if guide:
        pre = {"type": "text", "name": "pre", "label": "P", "hint": "PH", "media::image": "p.png"}
        pre.update({"guidance_hint::en": "GH", "guidance_hint::fr": "GHf"} if lang else {"guidance_hint": "GH"})
        rows[1:1] = [pre]
    chs = [{"list_name": "c", "name": "x", "label": "X"}, {"list_name": "c", "name": "y", "label": "Y"}]
    st = {}

    def put(row, col, second=False):
        if lang and neigh:
            row.pop(col, None)
            row[f"{col}::en"] = "N ${t0} n"
            row[f"{col}::fr"] = text
        elif lang:
            row.pop(col, None)
            row[f"{col}::en"] = text
            row[f"{col}::fr"] = text if (twin and not second) else "F"
        else:
            row[col] = text

    if twin and not lang:
        if ch in ("label", "hint", "guidance_hint", "constraint_message", "required_message"):
            put(q2, ch, True)
            if ch == "constraint_message":
                q2["constraint"] = ". != 'k'"
            if ch == "required_message":
                q2["required"] = "yes"
        elif ch == "glabel":
            put(rows[-3], "label", True)
        elif ch == "clabel":
            put(chs[1], "label", True)

    if ch in ("label", "hint", "guidance_hint", "constraint_message", "required_message"):
        put(q, ch)
        if ch == "constraint_message":
            q["constraint"] = ". != 'k'"
        if ch == "required_message":
            q["required"] = "yes"
    elif ch == "glabel":
        put(next(r for r in rows if r.get("name") == "g"), "label")
    elif ch == "clabel":
        put(chs[0], "label")
        if lang:
            chs[1].pop("label")
            chs[1]["label::en"] = "Y"
            chs[1]["label::fr"] = "Yf"
    elif ch == "looplabel":
        # a question inside a legacy loop: its text is copied per choice, literally (only %(name)s / %(label)s are placeholders)
        rows += [{"type": "begin loop over c", "name": "lp", "label": "LP"}, {"type": "text", "name": "lq", "label": text}, {"type": "end loop"}]
    elif ch == "cextra":
        chs[0]["extra"] = text
    elif ch == "default":
        q["default"] = text
    elif ch == "appearance":
        q["appearance"] = text
    elif ch == "form_title":
        st["form_title"] = text
    elif ch == "version":
        st["version"] = text
    elif ch == "attrval":
        st["attribute::av"] = text
    elif ch == "instval":
        q["instance::iv"] = text
    elif ch == "bindval":
        q["bind::bv"] = text
    wb = {"survey": rows, "choices": chs}
    if st:
        wb["settings"] = [st]
    return wb


def skeleton(el):
    return (el.tag, tuple(sorted(el.attrib)), tuple(skeleton(c) for c in el))


@functools.lru_cache(maxsize=None)
def inert_skeleton(ch, ref, lang, fmt, twin=False, neigh=False, guide=False):
    wb = build(ch, with_ref("x", ref), lang, twin, neigh, guide)
    src, kw = render.render(wb, fmt)
    out = run_convert(src, **kw)
    assert out.kind == "ok", (ch, ref, lang, out.msg)
    return skeleton(O.parse(out.xform))


def locate(obs, ch, lang, px="/data/g/q", gpath="/data/g", citem=0, pick_lang="en"):
    """-> ('mixed', element) | ('attr', string) | ('text', string) | None"""
    itx = {}
    for lg, d, texts in obs.itext:
        for tid, vals in texts:
            itx.setdefault(lg, {})[tid] = {form: el for form, el in vals}
    ctrls = {ref: el for el, tag, ref, anc in obs.body_controls()}
    bm = obs.bind_map()

    def via(el, tid_default, form=None):
        if el is not None and el.get("ref"):
            tid = O.itext_id(el.get("ref"))
        elif el is not None and form is None:
            return ("mixed", el)
        else:
            tid = tid_default
        pick = pick_lang if lang else None
        for lg, tab in itx.items():
            if (pick is None and lg != "fr") or lg == pick:
                v = tab.get(tid, {}).get(form)
                if v is not None:
                    return ("mixed", v)
        return None

    if ch == "label":
        c = ctrls.get(px)
        return via(c.find(O.X + "label") if c is not None else None, px + ":label")
    if ch == "looplabel":
        c = ctrls.get("/data/lp/y/lq")
        return via(c.find(O.X + "label") if c is not None else None, "/data/lp/y/lq:label")
    if ch == "glabel":
        c = ctrls.get(gpath)
        return via(c.find(O.X + "label") if c is not None else None, gpath + ":label")
    if ch == "hint":
        c = ctrls.get(px)
        return via(c.find(O.X + "hint") if c is not None else None, px + ":hint")
    if ch == "guidance_hint":
        return via(None, px + ":hint", "guidance")
    if ch in ("constraint_message", "required_message"):
        attr = O.J + ("constraintMsg" if ch == "constraint_message" else "requiredMsg")
        b = bm.get(px, [None])[0]
        v = b.get(attr) if b is not None else None
        if v is None:
            return None
        tid = O.itext_id(v)
        if tid is None:
            return ("attr", v)
        return via(None, tid)
    if ch in ("clabel", "cextra"):
        inst = {i: el for i, _, el in obs.secondary_instances()}.get("c")
        it = inst.find(O.X + "root").findall(O.X + "item")[citem]
        if ch == "cextra":
            e = it.find(O.X + "extra")
            return ("text", e.text or "") if e is not None else None
        lab = it.find(O.X + "label")
        if lab is not None:
            return ("text", lab.text or "")
        iid = it.find(O.X + "itextId")
        return via(None, iid.text if iid is not None else None)
    if ch == "default":
        e = obs.paths.get(px)
        return ("text", e.text or "") if e is not None else None
    if ch == "form_title":
        return ("text", obs.head.find(O.H + "title").text or "")
    if ch == "version":
        return ("attr", obs.primary.get("version"))
    if ch == "attrval":
        return ("attr", obs.primary.get("av"))
    if ch == "appearance":
        c = ctrls.get(px)
        return ("attr", c.get("appearance")) if c is not None else None
    if ch == "instval":
        e = obs.paths.get(px)
        return ("attr", e.get("iv")) if e is not None else None
    if ch == "bindval":
        b = bm.get(px, [None])[0]
        return ("attr", b.get("bv")) if b is not None else None
    return None


def check_one(case):
    ch, s, ref, lang, fmt = case["ch"], case["s"], case["ref"], case["lang"], case["fmt"]
    text = with_ref(s, ref)
    twin = bool(case.get("twin"))
    neigh = bool(case.get("neigh"))
    guide = bool(case.get("guide"))
    wb = build(ch, text, lang, twin, neigh, guide)
    if fmt == "md" and not render.md_representable(wb):
        return {"outcome": "not-representable", "nt": False, "viol": [], "tr": 1}
    src, kw = render.render(wb, fmt)
    out = run_convert(src, **kw)
    ntr = len(wb["survey"]) + len(wb["choices"])
    if out.kind == "crash":
        return {"outcome": "crash", "nt": False, "viol": [(f"crash:{ch}:{out.exc}:{out.where}", f"{out.msg} s={s!r}")], "tr": ntr}
    if out.kind == "reject":
        return {"outcome": "reject", "nt": False, "viol": [], "tr": ntr, "unexp": True, "why": f"{ch} {s!r}: {out.msg[:120]}"}
    viol = []
    sig = f"{ch}:{'ref' if ref != 'none' else 'plain'}:{'lang' if lang else 'mono'}:{fmt}"
    try:
        obs = O.Obs(out.xform)
    except O.ParseFailure as e:
        return {"outcome": "ok", "nt": False, "viol": [(f"not-wellformed:{sig}", f"s={s!r}: {e}")], "tr": ntr}
    sk = skeleton(obs.root)
    if sk != inert_skeleton(ch, ref, lang, fmt, twin, neigh, guide):
        viol.append((f"skeleton-changed:{sig}", f"s={s!r}"))
    loc = locate(obs, ch, lang, pick_lang="fr") if neigh else locate(obs, ch, lang)
    stripped = ch in SURVEY_CH or fmt != "dict"
    want = text
    if loc is None:
        viol.append((f"text-not-found:{sig}", f"s={s!r}"))
    else:
        kind, got = loc
        if kind == "mixed":
            flat = got.text or ""
            vals = []
            for c in got:
                if O.local(c.tag) == "output":
                    flat += "${t0}"
                    vals.append(c.get("value") or "")
                else:
                    flat += "<%s>" % O.local(c.tag)
                flat += c.tail or ""
            if ref == "none" and not (ch in SURVEY_CH or fmt != "dict"):
                ok = flat == want
            else:
                ok = norm_ws(flat) == norm_ws(want)
            if not ok:
                viol.append((f"text-altered:{sig}", f"got {flat!r} want {want!r}"))
            for v in vals:
                p = Path(v)
                if not p.ok or p.resolve(["data", "g", "q"]) != ["data", "t0"]:
                    viol.append((f"output-value:{sig}", v))
            if len(vals) != (0 if ref == "none" else 1):
                viol.append((f"output-count:{sig}", f"{len(vals)} outputs for s={s!r}"))
        else:
            if got is None:
                viol.append((f"text-not-found:{sig}", f"s={s!r}"))
            elif ref != "none":
                subs = align(want, got)
                if subs is None or len(subs) != 1 or Path(subs[0]).resolve(["data", "g", "q"]) != ["data", "t0"]:
                    viol.append((f"text-altered:{sig}", f"got {got!r} want {want!r}"))
            elif stripped:
                if norm_ws(got) != norm_ws(want):
                    viol.append((f"text-altered:{sig}", f"got {got!r} want {want!r}"))
            elif got != want:
                viol.append((f"text-altered:{sig}", f"got {got!r} want {want!r}"))
    if twin and not viol:
        # the second cell holding the same text must show it too (character for character, one output per reference)
        if lang:
            loc2 = locate(obs, ch, lang, pick_lang="fr")
        else:
            loc2 = locate(obs, ch, lang, px="/data/g/q2", gpath="/data/g2", citem=1)
        flat2 = None
        if loc2 is not None:
            kind2, got2 = loc2
            if kind2 == "mixed":
                flat2 = got2.text or ""
                for c in got2:
                    flat2 += "${t0}" if O.local(c.tag) == "output" else "<%s>" % O.local(c.tag)
                    flat2 += c.tail or ""
            elif got2 is not None:
                subs = align(want, got2) if ref != "none" else None
                flat2 = want if (ref != "none" and subs is not None and len(subs) == 1) else got2
        if flat2 is None or norm_ws(flat2) != norm_ws(want):
            viol.append((f"twin-cell-text-altered:{sig}", f"second cell shows {flat2!r} want {want!r}"))
    nt = bool(SIGNIFICANT & set(s))
    return {"outcome": "ok", "nt": nt and not viol, "viol": viol, "tr": ntr}
