"""C02 - model, instance and body agree: every nodeset/ref names one existing node; ambiguous
names are rejected.  Closure invariant on every reachable output of the layout space."""

import collections
import copy

from xmc import observe as O
from xmc.impl import run_convert
from xmc.spaces import flatten, forests_upto
from props.C03 import forest_from_json, forest_to_json

ID = "C02"
LEVEL = "model_checking"
TECHNIQUE = "explicit-state small-scope exploration: every bounded layout x generated-node feature rotation x one colliding-name deviation executed on the implementation; closure invariant checked on every accepted output, rejection oracle on ambiguous names"
CLAIM = ("Every forest of groups/repeats up to the bound, with every generated-node feature switched on by rotation and "
         "every single name collision (equal, case variant, helper names *_count/*_other, meta), is converted by the real "
         "code; on every accepted output all binds, controls, repeats and actions are resolved on the parsed primary "
         "instance, and forms with ambiguous sibling names must be refused with the library's error type.")
RULE = (
    "case = (forest in L(N,3), feature rotation in 0..5, settings/entities variant, <=1 name deviation (i,j,kind)); "
    "non-trivial = accepted form with at least one generated helper node or repeat template whose closure was checked, "
    "or a form with an ambiguous sibling name that must be rejected; distinct by canonical case hash"
)
ASSUMPTIONS = [
    "paths are resolved structurally on the parsed primary instance (child steps and one attribute step)",
    "layouts up to the stated node count and depth 3; names from a 7-letter alphabet plus the helper-name collisions",
]
BOUND = {
    "quick": "L(5,3) x 6 feature rotations x 2 settings variants with default names; L(5,3) x 3 rotations x all ordered (i,j) x 5 collision kinds",
    "thorough": "L(6,3) x 6 rotations x 2 settings variants with default names; L(6,3) x 6 rotations x all ordered (i,j) x 5 collision kinds",
}
# as-built additions to the bound (kept next to BOUND so that the evidence reports them)
BOUND = {k: v + "; plus: " + '8 custom columns mostly named like computed attributes (bind::nodeset, body::ref, ...) on every row of L(4,3) / L(5,3), valued with another node path or a path of nothing; every question row bound exactly once; object API: every question moved to every other section with add_child between two to_xml() calls (L(4,3) quick / L(5,3) thorough), also renamed to a name already present in the target section' for k, v in BOUND.items()}
NAMES = ["a", "b", "c", "d", "e", "f", "g"]
KINDS = ["eq", "case", "count", "other", "meta"]
CHOICES = [{"list_name": "ch9", "name": "x", "label": "X"}, {"list_name": "ch9", "name": "y", "label": "Y"}]

QT = [
    ("text", {}),
    ("select_one ch9 or_other", {}),
    ("calculate", {"calculation": "1+1", "trigger": "TRIG"}),
    ("text", {"default": "now()"}),
    ("start-geopoint", {}),
    ("select_multiple ch9 or_other", {"default": "x"}),
    ("integer", {"default": "3"}),
    ("background-geopoint", {"trigger": "TRIG"}),
    # rows that declare an external instance and have no node of their own: logic cells / defaults on them bind nothing
    ("xml-external", {"relevant": "1 = 1", "default": "now()", "required": "yes"}),
    ("csv-external", {"calculation": "1 + 1", "read_only": "yes", "default": "3"}),
]


COMPUTED_COLS = ["bind::nodeset", "body::ref", "body::nodeset", "instance::id", "bind::type", "body::appearance", "bind::jr:preload", "instance::custom",
                 "instance::tag", "instance::name", "body::tag", "bind::tag"]  # names of the XML writer's own keyword arguments: they may not rename the node
EMPTY_CONTENT = {"none": [], "xml-external": [{"type": "xml-external", "name": "xe9"}], "csv-external": [{"type": "csv-external", "name": "ce9"}],
                 "both": [{"type": "xml-external", "name": "xe9"}, {"type": "csv-external", "name": "ce9"}]}
EMPTY_LOGIC = {"none": {}, "relevant": {"relevant": "1 = 1"}, "required": {"required": "yes"}, "readonly+bind": {"read_only": "yes", "bind::custom": "v"}}  # (instance::jr:template would turn the node into a template by the author's own wish)


def blocks(tier):
    from xmc import corpus

    for s in range(0, len(corpus.load()), 100):
        yield ("corpus", s)
    N = 5 if tier == "quick" else 6
    ND = 5 if tier == "quick" else 6
    n = sum(1 for _ in forests_upto(N, 3))
    for fi in range(n):
        yield ("default", fi)
    nd = sum(1 for _ in forests_upto(ND, 3))
    for fi in range(nd):
        yield ("dev", fi)
    # custom columns whose name is an attribute the converter computes itself (bind nodeset, control ref, ...)
    for fi in range(sum(1 for _ in forests_upto(4 if tier == "quick" else 5, 3))):
        yield ("col", fi)
    # a section without rows of its own (or holding only external-instance rows), with and without logic cells, at every row boundary
    for fi in range(sum(1 for _ in forests_upto(3 if tier == "quick" else 4, 3))):
        yield ("empty", fi)
    # sections/include API: one section included at 1..2 places of the main form
    for fi in range(sum(1 for _ in forests_upto(4 if tier == "quick" else 5, 3))):
        yield ("include", fi)
    # object API: regenerate after moving a question to another section of the same survey object
    na = sum(1 for _ in forests_upto(4 if tier == "quick" else 5, 3))
    for fi in range(na):
        yield ("api", fi)


def _forest(fi):
    for i, f in enumerate(forests_upto(6, 3)):
        if i == fi:
            return f
    raise IndexError(fi)


def expand(block, tier):
    if block[0] == "corpus":
        from xmc import corpus

        for e in corpus.load()[block[1]:block[1] + 100]:
            yield {"corpus": e["id"], "wb": e["wb"]}
        return
    forest = _forest(block[1])
    fj = forest_to_json(forest)
    n = len(flatten(forest, NAMES))
    if block[0] == "include":
        import itertools

        nodes = flatten(forest, NAMES)
        qs = [x["i"] for x in nodes if x["kind"] == "q"]
        for r in (1, 2):
            for sub in itertools.combinations(qs, r):
                for sec in (0, 1, 2):
                    yield {"f": fj, "include": list(sub), "sec": sec}
        return
    if block[0] == "empty":
        nrows = len(build({"f": fj, "feat": 0, "st": 0, "dev": None})[0]["survey"])
        for pos in range(nrows + 1):
            for kind in ("group", "repeat"):
                for content in EMPTY_CONTENT:
                    for logic in EMPTY_LOGIC:
                        yield {"f": fj, "feat": 0, "st": 0, "dev": None, "empty": [pos, kind, content, logic]}
        return
    if block[0] == "col":
        nodes = flatten(forest, NAMES)
        for i in range(n):
            others = [x["i"] for x in nodes if x["i"] != i][:2]
            for col in COMPUTED_COLS:
                for tgt in (*others, None):
                    yield {"f": fj, "feat": 0, "st": 0, "dev": None, "col": [i, col, tgt]}
                    if col.startswith("bind::") and nodes[i]["kind"] == "q":
                        yield {"f": fj, "feat": 3, "st": 0, "dev": None, "col": [i, col, tgt]}
        return
    if block[0] == "api":
        nodes = flatten(forest, NAMES)
        for feat in (0, 3):
            for nd_ in nodes:
                if nd_["kind"] != "q":
                    continue
                for tgt in [None, *[x["i"] for x in nodes if x["kind"] != "q"]]:
                    if tgt == nd_["parent"]:
                        continue
                    yield {"f": fj, "feat": feat, "st": 0, "dev": None, "move": [nd_["i"], tgt]}
                    # same move, but the target section already holds a question of the same name (element count unchanged)
                    clash = [x["i"] for x in nodes if x["parent"] == tgt and x["kind"] == "q" and x["i"] != nd_["i"]]
                    if clash and feat == 0:
                        yield {"f": fj, "feat": feat, "st": 0, "dev": None, "move": [nd_["i"], tgt], "rename_to": clash[0]}
        return
    if block[0] == "default":
        for feat in range(len(QT)):
            for st in (0, 1):
                yield {"f": fj, "feat": feat, "st": st, "dev": None}
    else:
        feats = range(0, len(QT), 2) if tier == "quick" else range(len(QT))
        for feat in feats:
            for i in range(n):
                for j in range(n):
                    if i == j:
                        continue
                    for k in KINDS:
                        if k == "meta" and j != (i + 1) % n:
                            continue  # 'meta' does not depend on j: keep one representative
                        yield {"f": fj, "feat": feat, "st": 0, "dev": [i, j, k]}


def required_outcomes(tier):
    return {"ok", "reject-expected"}


def build(case):
    forest = forest_from_json(case["f"])
    names = list(NAMES)
    dev = case["dev"]
    nodes0 = flatten(forest, names)
    if dev:
        i, j, k = dev
        names[i] = {"eq": names[j], "case": names[j].upper(), "count": names[j] + "_count",
                    "other": names[j] + "_other", "meta": "meta"}[k]
    nodes = flatten(forest, names)
    feat = case["feat"]
    rows = []
    info = {}  # node index -> feature info

    def rec(f):
        for t in f:
            i = len([r for r in rows if "name" in r])
            nm = names[i]
            if t[0] == "q":
                ty, extra = QT[(i + feat) % len(QT)]
                r = {"type": ty, "name": nm, **extra}
                if ty not in ("calculate", "start-geopoint", "background-geopoint", "xml-external", "csv-external"):
                    r["label"] = nm
                info[i] = {"other": "or_other" in ty, "external": ty.endswith("-external")}
                rows.append(r)
            else:
                kind = "group" if t[0] == "g" else "repeat"
                r = {"type": f"begin {kind}", "name": nm, "label": nm}
                cnt = t[0] == "r" and (i + feat) % 2 == 0
                if cnt:
                    r["repeat_count"] = "1 + 1"
                if t[0] == "g" and (i + feat) % 3 == 0:
                    r["appearance"] = "field-list"
                info[i] = {"count": cnt}
                rows.append(r)
                rec(t[1])
                rows.append({"type": f"end {kind}"})

    rec(forest)
    # triggers point at the first visible text question; rows without one lose the trigger
    firstq = [r["name"] for r in rows if r.get("type") == "text"]
    for r in rows:
        if r.get("trigger") == "TRIG":
            if firstq and names.count(firstq[0]) == 1:
                r["trigger"] = "${%s}" % firstq[0]
            elif r["type"] == "background-geopoint":
                r["type"] = "text"
                r["label"] = r["name"]
                del r["trigger"]
            else:
                del r["trigger"]
    if case.get("col"):
        i, col, tgt = case["col"]
        row = [r for r in rows if "name" in r][i]
        row[col] = ("/" + "/".join(nodes[tgt]["path"])) if tgt is not None else "/data/nothing_here"
    if case.get("empty"):
        pos, kind, content, logic = case["empty"]
        rows[pos:pos] = [{"type": f"begin {kind}", "name": "z9", "label": "Z", **EMPTY_LOGIC[logic]}, *[dict(r) for r in EMPTY_CONTENT[content]], {"type": f"end {kind}"}]
    wb = {"survey": rows, "choices": [dict(c) for c in CHOICES]}
    if case["st"] == 1:
        wb["survey"] = [{"type": "audit", "name": "audit"}, *rows]
        wb["settings"] = [{"instance_name": "concat('x', 'y')", "form_id": "f1"}]
        # entity with a save_to on the first top-level text question
        top = [nd for nd in nodes if nd["parent"] is None and nd["kind"] == "q"]
        for nd in top:
            r = next(r for r in rows if r.get("name") == nd["name"])
            if r["type"] == "text":
                r["save_to"] = "prop1"
                break
        wb["entities"] = [{"dataset": "trees", "label": "concat('e', '1')"}]
    return wb, nodes, info, names


def must_reject(case, nodes, info):
    dev = case["dev"]
    if not dev:
        return False
    i, j, k = dev
    sib = nodes[i]["parent"] == nodes[j]["parent"]
    if k in ("eq", "case"):
        return sib
    if k == "count":
        return sib and nodes[j]["kind"] == "r" and info[j].get("count")
    if k == "other":
        return sib and nodes[j]["kind"] == "q" and info[j].get("other")
    if k == "meta":
        return nodes[i]["parent"] is None
    return False


def closure_problems(obs):
    pr = []
    paths = obs.paths
    for d in obs.dup_siblings:
        pr.append(("dup-siblings", d))
    seen = set()
    for b in obs.model.findall(O.X + "bind"):
        nsn = b.get("nodeset")
        if nsn is None or not nsn.startswith("/"):
            pr.append(("bind-not-absolute", str(nsn)))
            continue
        if not obs.resolves(nsn):
            pr.append(("bind-unresolved", nsn))
        if nsn in seen:
            pr.append(("double-bind", nsn))
        seen.add(nsn)
    for el in obs.model:
        tag = O.local(el.tag)
        if tag in ("setvalue", "setgeopoint", "recordaudio") or (el.get("ref") and tag not in ("bind", "instance", "itext", "submission")):
            r = el.get("ref")
            if r is None or not r.startswith("/") or not obs.resolves(r):
                pr.append((f"model-action-unresolved:{tag}", str(r)))
    refs = []
    for el, tag, ref, anc in obs.body_controls():
        if ref is None:
            continue
        if tag in ("input", "select", "select1", "upload", "trigger", "group", "repeat", "range", "rank",
                   "setvalue", "setgeopoint", "recordaudio"):
            if not ref.startswith("/"):
                pr.append((f"body-not-absolute:{tag}", ref))
            elif not obs.resolves(ref):
                pr.append((f"body-unresolved:{tag}", ref))
            if tag not in ("setvalue", "setgeopoint", "recordaudio", "repeat"):
                refs.append((ref, tag, anc))
    cnt = collections.Counter(r for r, _, _ in refs)
    for r, c in cnt.items():
        if c > 1:
            pr.append(("controls-share-ref", r))
    # a repeat's nodeset may equal only its wrapping group's ref
    for el, tag, ref, anc in obs.body_controls():
        if tag == "repeat":
            par = anc[-1] if anc else None
            if par is None or O.local(par.tag) != "group" or par.get("ref") != ref:
                pr.append(("repeat-not-wrapped-by-its-group", str(ref)))
    # template copies mirror the instance copy
    for p, els in obs.template_paths.items():
        real = paths.get(p)
        if real is None:
            continue
        for t in els:
            a = [O.local(c.tag) for c in t]
            b = [O.local(c.tag) for c in real if O.TEMPLATE not in c.attrib]
            # nested repeats appear once in a template, (template + instance) outside
            if a != b and sorted(set(a)) != sorted(set(b)):
                pr.append(("template-differs", f"{p}: {a} vs {b}"))
    return pr


def _find(el, name):
    for c in getattr(el, "children", None) or ():
        if c.name == name:
            return c
        r = _find(c, name)
        if r is not None:
            return r
    return None


def check_api(case):
    """to_xml, move one question to another section with add_child, to_xml again: the second XForm must be closed too"""
    wb, nodes, info, names = build(case)
    out = run_convert(wb)
    ntr = len(wb["survey"]) + 2
    if out.kind != "ok":
        return {"outcome": f"api-{out.kind}", "nt": False, "viol": [], "tr": ntr}
    i, tgt = case["move"]
    sv = out.result._survey
    try:
        sv.to_xml(validate=False, pretty_print=False)
        el = _find(sv, names[i])
        new_parent = sv if tgt is None else _find(sv, names[tgt])
        if el is None or new_parent is None or not hasattr(new_parent, "add_child"):
            return {"outcome": "api-not-applicable", "nt": False, "viol": [], "tr": ntr}
        el.parent.children.remove(el)
        if case.get("rename_to") is not None:
            el.name = names[case["rename_to"]]
        new_parent.add_child(el)
        x2 = sv.to_xml(validate=False, pretty_print=False)
    except Exception as e:  # noqa: BLE001 - the object API may refuse the move (references, triggers): not a verdict
        return {"outcome": "api-refused", "nt": case.get("rename_to") is not None, "viol": [], "tr": ntr, "why": f"{type(e).__name__}: {e}"[:120]}
    if case.get("rename_to") is not None:
        # two siblings now share a name: an XForm was produced although every path through them is ambiguous
        try:
            o2 = O.Obs(x2)
            o2.paths  # (computes dup_siblings)
            dups = o2.dup_siblings
        except O.ParseFailure:
            dups = ["unparseable"]
        v = [("api-move:ambiguous-siblings-accepted-on-regeneration", str(dups)[:200])] if dups else []
        return {"outcome": "api-ok", "nt": False, "viol": v, "tr": ntr}
    viol = []
    try:
        obs = O.Obs(x2)
    except O.ParseFailure as e:
        return {"outcome": "api-ok", "nt": False, "viol": [("api-move:unparseable", str(e))], "tr": ntr}
    for kind, detail in closure_problems(obs):
        viol.append((f"api-move:{kind}", detail))
    want = "/data/" + "/".join(([] if tgt is None else nodes[tgt]["path"][1:]) + [names[i]])
    if want not in obs.paths or not any(b.get("nodeset") == want for b in obs.model.findall(O.X + "bind")):
        viol.append(("api-move:moved-node-not-bound-at-its-new-path", want))
    return {"outcome": "api-ok", "nt": not viol, "viol": viol[:4], "tr": ntr}


SECTIONS = [
    [{"type": "text", "name": "street", "label": "Street"}, {"type": "integer", "name": "no", "label": "No", "bind": {"relevant": "${street} != ''"}}],
    [{"type": "group", "name": "addr", "label": "Addr", "children": [{"type": "text", "name": "street", "label": "Street"}]},
     {"type": "text", "name": "city", "label": "City", "default": "now()"}],
    [{"type": "text", "name": "street", "label": "Street"}, {"type": "text", "name": "city", "label": "City", "default": "now()"},
     {"type": "select one", "name": "kind", "label": "Kind", "itemset": "c", "list_name": "c", "choices": [{"name": "x", "label": "X"}, {"name": "y", "label": "Y"}]}],
]


def check_include(case):
    """main form given as element dicts, some questions replaced by {"type": "include"} of one shared section"""
    from pyxform.builder import create_survey
    from pyxform.errors import PyXFormError

    forest = forest_from_json(case["f"])
    nodes = flatten(forest, NAMES)
    inc = set(case["include"])
    ctr = [0]

    def rec(f):
        out = []
        for t in f:
            i = ctr[0]
            ctr[0] += 1
            nm = NAMES[i]
            if t[0] == "q":
                out.append({"type": "include", "name": "sec"} if i in inc else {"type": "text", "name": nm, "label": nm})
            else:
                out.append({"type": "group" if t[0] == "g" else "repeat", "name": nm, "label": nm, "children": rec(t[1])})
        return out

    main = {"type": "survey", "name": "data", "id_string": "data", "title": "data", "children": rec(forest)}
    sections = {"data": main, "sec": {"type": "survey", "name": "sec", "children": copy.deepcopy(SECTIONS[case["sec"]])}}
    parents = [nodes[i]["parent"] for i in case["include"]]
    # refused when two copies become siblings, or when the section's own ${street} reference becomes ambiguous
    # (a section holding a group cannot be included twice either: section names are unique form-wide)
    same_parent = len(parents) != len(set(parents)) or (len(parents) > 1 and case["sec"] in (0, 1))
    ntr = len(nodes) + 2
    try:
        sv = create_survey(name_of_main_section="data", sections=copy.deepcopy(sections))
        x = sv.to_xml(validate=False, pretty_print=False)
    except PyXFormError as e:
        return {"outcome": "include-reject", "nt": same_parent, "viol": [] if same_parent else [], "tr": ntr, "unexp": not same_parent, "why": str(e)[:160]}
    except Exception as e:  # noqa: BLE001
        return {"outcome": "include-crash", "nt": False, "viol": [(f"include:internal-exception:{type(e).__name__}", str(e)[:200])], "tr": ntr}
    viol = []
    if same_parent:
        viol.append(("include:ambiguous-siblings-accepted", str(case["include"])))
    try:
        obs = O.Obs(x)
    except O.ParseFailure as e:
        return {"outcome": "include-ok", "nt": False, "viol": [("include:unparseable", str(e))], "tr": ntr}
    if not same_parent:
        for kind, detail in closure_problems(obs):
            viol.append((f"include:{kind}", detail))
        # every included copy has its own nodes, each bound once
        for i in case["include"]:
            base = "/data/" + "/".join(nodes[i]["path"][1:-1])
            base = base.rstrip("/")
            for leaf in (["street", "no"], ["addr/street", "city"], ["street", "city", "kind"])[case["sec"]]:
                px = f"{base}/{leaf}"
                if px not in obs.paths or sum(1 for b in obs.model.findall(O.X + "bind") if b.get("nodeset") == px) != 1:
                    viol.append(("include:included-node-not-bound-once", px))
    return {"outcome": "include-ok", "nt": len(case["include"]) > 1 and not viol, "viol": viol[:4], "tr": ntr}


def check_corpus(case):
    """a realistic workbook of the frozen corpus: the closure invariant on the accepted output"""
    wb = case["wb"]
    out = run_convert(wb)
    ntr = len(wb["survey"])
    if out.kind != "ok":
        return {"outcome": f"corpus-{out.kind}", "nt": False, "viol": [], "tr": ntr}
    try:
        obs = O.Obs(out.xform)
    except O.ParseFailure as e:
        return {"outcome": "ok", "nt": False, "viol": [("unparseable:corpus", str(e))], "tr": ntr}
    viol = [(f"{k}:corpus", d) for k, d in closure_problems(obs)]
    return {"outcome": "ok", "nt": not viol, "viol": viol[:4], "tr": ntr}


def check_one(case):
    if case.get("corpus"):
        return check_corpus(case)
    if case.get("include") is not None:
        return check_include(case)
    if case.get("move"):
        return check_api(case)
    wb, nodes, info, names = build(case)
    out = run_convert(wb)
    ntr = len(wb["survey"])
    mr = must_reject(case, nodes, info)
    if out.kind == "crash":
        return {"outcome": "crash", "nt": False, "viol": [], "tr": ntr}
    if out.kind == "reject":
        if mr:
            return {"outcome": "reject-expected", "nt": True, "viol": [], "tr": ntr}
        if case["dev"]:
            return {"outcome": "reject-collision", "nt": False, "viol": [], "tr": ntr}
        return {"outcome": "reject", "nt": False, "viol": [], "tr": ntr, "unexp": not case.get("col"), "why": out.msg[:200]}
    viol = []
    if mr:
        viol.append((f"ambiguous-name-accepted:{case['dev'][2]}", f"names={names} dev={case['dev']}"))
    try:
        obs = O.Obs(out.xform)
    except O.ParseFailure as e:
        return {"outcome": "ok", "nt": False, "viol": [("unparseable", str(e))], "tr": ntr}
    for kind, detail in closure_problems(obs):
        viol.append((kind, detail))
    if case.get("col"):
        # the author's own column is what is held responsible: the signature names it
        viol = [(f"{k}:col={case['col'][1]}", d) for k, d in viol]
    if not case["dev"]:
        # every question row is bound exactly once, at its own path
        bm = obs.bind_map()
        for nd in nodes:
            if nd["kind"] == "q":
                px = "/" + "/".join(nd["path"])
                if info.get(nd["i"], {}).get("external"):
                    if bm.get(px) or obs.resolves(px):
                        viol.append(("external-instance-row-has-node-or-bind", px))
                    continue
                if len(bm.get(px, ())) != 1:
                    viol.append(("question-row-bind-count" + (f":col={case['col'][1]}" if case.get("col") else ""), f"{px}: {len(bm.get(px, ()))} binds"))
    helpers = any(v.get("count") or v.get("other") for v in info.values()) or bool(obs.template_paths)
    return {"outcome": "ok", "nt": helpers and not viol, "viol": viol, "tr": ntr}

# as-built additions of the seventh wave (reported with the bound in the evidence)
BOUND = {k: v + "; seventh wave: " + 'the frozen corpus (closure invariant on every accepted form); a section without rows of its own (or with external-instance rows only) x 4 logic-cell sets at every row boundary of L(3,3) / L(4,3); writer-keyword column names (instance::tag, body::tag, ...)' for k, v in BOUND.items()}
