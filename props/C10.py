"""C10 - defaults and triggered calculations are applied exactly once."""

from xmc import observe as O
from xmc.impl import run_convert
from xmc.pathmodel import Path, align, norm_ws
from xmc.spaces import flatten, forests_upto
from props.C03 import forest_from_json, forest_to_json, repeat_ancestors

ID = "C10"
LEVEL = "model_checking"
TECHNIQUE = "explicit-state small-scope exploration: question type x default token x every placement in every bounded layout, and every (trigger, target) pairing, executed on the implementation; exactly-once XOR oracle plus reference classifier"
CLAIM = ("For every question type and default token of the alphabet at every question position of every layout in the bound, and "
         "for every ordered (trigger question, target) pair, the real converter is run and the output must show the default "
         "either as literal node text (instance and templates) or as exactly one correctly placed setvalue, never both or "
         "neither; triggered calculations must be one value-changed action nested in the trigger's control.")
RULE = (
    "default cases = forest in L(N,3) x question position x type x token; trigger cases = forest x ordered (trigger, target) "
    "x target type x with/without calculation; non-trivial = accepted case whose node sits inside a repeat (template and "
    "repeat-body placement are exercised) or a trigger pair at different depths; distinct by canonical case hash"
)
ASSUMPTIONS = [
    "which tokens count as static/dynamic is fixed only for the unambiguous tokens of the reference classifier; ambiguous ones need only satisfy the XOR",
    "layouts up to L(N,3); token alphabet of 22 strings",
]
BOUND = {
    "quick": "L(4,3) x every question position x 11 types x 22 tokens; L(4,3) x ordered trigger pairs x 3 target types x calc/no-calc",
    "thorough": "L(5,3) x every question position x 11 types x 22 tokens; L(5,3) x ordered trigger pairs x 3 target types x calc/no-calc x 2 trigger types",
}
# as-built additions to the bound (kept next to BOUND so that the evidence reports them)
BOUND = {k: v + "; plus: " + "included sections (sections API) holding triggers / defaults, at top level and inside a group / repeat; 13 kinds of thing a trigger cell can name (visible, hidden and metadata questions, sections, several references) x 3 target types; selects with a default / trigger inside a table-list group (helper nodes get nothing); select defaults naming a choice that looks like arithmetic (65-plus); a namesake of the question in another group/repeat (before/after) with a default of the other kind, 6 token pairs; triggered calculations spelled yes/false/TRUE/true(); 4 function/reference-then-minus tokens; one name deviation: the question's name extends another node's name (<name>_count, <name>x)" for k, v in BOUND.items()}
NAMES = ["a", "b", "c", "d", "e", "f"]
TYPES = ["text", "integer", "decimal", "date", "time", "dateTime", "select_one c", "geopoint", "image", "calculate", "note"]
# token -> classification: 's' static, 'd' dynamic, '?' ambiguous
TOKENS = {
    "5": "s", "-5": "s", "1.5": "s", "abc": "s", "a-b": "s", "hello world": "s", "2020-01-01": "s",
    "2020-01-01T10:00:00": "s", "12:00:00": "s", "1.0 -2.0 0 0": "s", "x.png": "s", "jr://images/x.png": "?",
    "now()": "d", "concat('a','b')": "d", "${t0}": "d", "1 + 2": "d", "3 * 4": "d", "5 div 2": "d",
    "7 mod 2": "d", "2 - 1": "?", "${t0} + 1": "d", "if(${t0} = 1, 'a', 'b')": "d",
    # a function call or a reference makes the default an expression whatever follows it (also a minus, also for date-like types)
    "-.5": "s", ".5": "s", "-0.25": "s", "1e3": "s",
    "today() - 7": "d", "${t0} - 1": "d", "now() - 0.04": "d", "date(decimal-date-time(today()) - 7)": "d",
}
CHOICES = [{"list_name": "c", "name": "abc", "label": "X"}, {"list_name": "c", "name": "y", "label": "Y"}]


def _forest(fi):
    for i, f in enumerate(forests_upto(6, 3)):
        if i == fi:
            return f
    raise IndexError(fi)


def gen_tablelist():
    """selects inside a table-list group: the generated helper nodes hold no default and are the target of no action"""
    for pos in (0, 1):
        for dflt in (None, "abc", "${t0}", "y"):
            for trig in (False, True):
                for ctx in ("top", "repeat"):
                    for sel in ("select_one c", "select_multiple c"):
                        if dflt is None and not trig:
                            continue
                        yield {"k": "tablelist", "pos": pos, "default": dflt, "trig": trig, "ctx": ctx, "sel": sel}
    # what the trigger cell names: whatever is accepted must yield the action (nothing is lost silently)
    for src in ("text", "select_one c", "note", "hidden", "today", "deviceid", "calculate", "group", "repeat", "two-refs", "ref-with-text", "start-geopoint", "last-saved",
                "padded-right", "padded-left", "padded-both", "padded-tab"):  # blanks around the reference, cell cleaning switched off
        for tgt in ("calculate", "text", "background-geopoint"):
            yield {"k": "trigsrc", "src": src, "tgt": tgt}
    # the sections / include API: triggers and defaults inside an included section, at top level and inside a group / repeat
    for place in ("top", "group", "repeat"):
        for inner in ("trigger-calc", "trigger-geopoint", "dynamic-default", "static-default", "trigger-to-outer"):
            yield {"k": "include", "place": place, "inner": inner}
    # a select whose default is a choice name that looks like arithmetic
    for name in ("65-plus", "1-a", "a-b", "18-64", "x+y"):
        for ty in ("select_one d", "select_multiple d"):
            for ctx in ("top", "repeat"):
                yield {"k": "choicedefault", "name": name, "type": ty, "ctx": ctx}


def blocks(tier):
    yield ("tablelist",)
    N = 4 if tier == "quick" else 5
    n = sum(1 for _ in forests_upto(N, 3))
    for fi in range(n):
        yield ("default", fi)
        yield ("trigger", fi)


def expand(block, tier):
    if block[0] == "tablelist":
        yield from gen_tablelist()
        return
    forest = _forest(block[1])
    fj = forest_to_json(forest)
    nodes = flatten(forest, NAMES)
    qs = [nd["i"] for nd in nodes if nd["kind"] == "q"]
    if block[0] == "default":
        for qi in qs:
            for ty in TYPES:
                for tok in TOKENS:
                    yield {"k": "default", "f": fj, "q": qi, "type": ty, "tok": tok}
        # one name deviation: the question's name extends another node's name (repeat 'b', question 'b_count')
        for qi in qs:
            for nd in nodes:
                if nd["i"] == qi:
                    continue
                for sfx in ("_count", "x"):
                    for ty in ("text", "integer"):
                        for tok in ("now()", "${t0} + 1", "5"):
                            yield {"k": "default", "f": fj, "q": qi, "type": ty, "tok": tok, "pre": [nd["i"], sfx]}
        # a namesake of the question in another section (legal: nothing refers to it by name), with a default of the other kind
        for qi in qs:
            for ty in ("text", "integer"):
                for tok, tok2 in (("5", "now()"), ("now()", "5"), ("${t0} + 1", "abc"), ("abc", "${t0} + 1"), ("now()", "now()"), ("5", "5")):
                    for cont in ("group", "repeat"):
                        for pos in ("first", "last"):
                            yield {"k": "default", "f": fj, "q": qi, "type": ty, "tok": tok, "twin": [tok2, cont, pos]}
    else:
        ttypes = ["text"] if tier == "quick" else ["text", "select_one c"]
        for ti in qs:
            for xi in qs:
                if ti == xi:
                    continue
                for ty in ("calculate", "text", "background-geopoint"):
                    for calc in (None, "${t0} + 1", "now()"):
                        if ty == "background-geopoint" and calc:
                            continue
                        if ty == "calculate" and not calc:
                            continue  # a calculate row without calculation is (rightly) refused
                        for tt in ttypes:
                            yield {"k": "trigger", "f": fj, "t": ti, "x": xi, "type": ty, "calc": calc, "tt": tt}
        # calculations that are spelled like the yes/no aliases of boolean cells: still only the action, never a bind calculate
        for ti in qs:
            for xi in qs:
                if ti == xi:
                    continue
                for ty in ("calculate", "text"):
                    for calc in ("yes", "false", "TRUE", "true()"):
                        yield {"k": "trigger", "f": fj, "t": ti, "x": xi, "type": ty, "calc": calc, "tt": "text"}
        # one trigger, two targets: one with a calculation, one without (either sheet order), or both with different ones
        for ti in qs:
            for xi in qs:
                for yi in qs:
                    if len({ti, xi, yi}) < 3 or xi > yi:
                        continue
                    for calcs in (("${t0} + 1", None), (None, "${t0} + 1"), ("${t0} + 1", "now()"), (None, None)):
                        yield {"k": "trigger2", "f": fj, "t": ti, "x": xi, "y": yi, "calcs": list(calcs)}


def required_outcomes(tier):
    return {"static", "dynamic-model", "dynamic-repeat", "trigger-ok"}


def names_for(case):
    """default names; with a 'pre' deviation the question under test is named <other node's name>_count / <name>x,
    i.e. that node's name is a string prefix of it"""
    names = list(NAMES)
    if case.get("pre") is not None:
        j, sfx = case["pre"]
        names[case["q"]] = NAMES[j] + sfx
    return names


def build(case):
    forest = forest_from_json(case["f"])
    NAMES_ = names_for(case)
    nodes = flatten(forest, NAMES_)
    rows = [{"type": "text", "name": "t0", "label": "T0"}]

    def rec(f):
        for t in f:
            i = len([r for r in rows if "name" in r]) - 1
            nm = NAMES_[i]
            if t[0] == "q":
                r = {"type": "text", "name": nm, "label": nm}
                if case["k"] == "default" and i == case["q"]:
                    r = {"type": case["type"], "name": nm, "label": nm, "default": case["tok"]}
                    if case["type"] == "calculate":
                        del r["label"]
                        r["calculation"] = "1"
                elif case["k"] == "trigger" and i == case["x"]:
                    r = {"type": case["type"], "name": nm, "trigger": "${%s}" % NAMES[case["t"]]}
                    if case["type"] == "text":
                        r["label"] = nm
                    if case["calc"]:
                        r["calculation"] = case["calc"]
                elif case["k"] == "trigger" and i == case["t"]:
                    r["type"] = case["tt"]
                elif case["k"] == "trigger2" and i in (case["x"], case["y"]):
                    calc = case["calcs"][0 if i == case["x"] else 1]
                    r = {"type": "text", "name": nm, "label": nm, "trigger": "${%s}" % NAMES[case["t"]]}
                    if calc:
                        r["calculation"] = calc
                rows.append(r)
            else:
                kind = "group" if t[0] == "g" else "repeat"
                rows.append({"type": f"begin {kind}", "name": nm, "label": nm})
                rec(t[1])
                rows.append({"type": f"end {kind}"})

    rec(forest)
    if case.get("twin"):
        tok2, cont, pos = case["twin"]
        tw = [{"type": f"begin {cont}", "name": "twz9", "label": "TW"}, {"type": case["type"], "name": NAMES_[case["q"]], "label": "TWIN", "default": tok2}, {"type": f"end {cont}"}]
        rows[1:1] = tw if pos == "first" else []
        rows.extend(tw if pos == "last" else [])
    return {"survey": rows, "choices": [dict(c) for c in CHOICES]}, nodes


DATE_LIKE = {"date", "dateTime", "geopoint"}


def check_trigsrc(case):
    src, tgt = case["src"], case["tgt"]
    rows = [{"type": "text", "name": "t0", "label": "T0"}]
    trig = "${a}"
    if src in ("group", "repeat"):
        rows += [{"type": f"begin {src}", "name": "a", "label": "A"}, {"type": "text", "name": "ai", "label": "AI"}, {"type": f"end {src}"}]
    elif src == "two-refs":
        rows += [{"type": "text", "name": "a", "label": "A"}]
        trig = "${a}, ${t0}"
    elif src == "ref-with-text":
        rows += [{"type": "text", "name": "a", "label": "A"}]
        trig = "x ${a}"
    elif src == "last-saved":
        rows += [{"type": "text", "name": "a", "label": "A"}]
        trig = "${last-saved#a}"
    elif src.startswith("padded"):
        rows += [{"type": "text", "name": "a", "label": "A"}]
        trig = {"padded-right": "${a} ", "padded-left": "  ${a}", "padded-both": " ${a}  ", "padded-tab": "${a}\t"}[src]
    elif src == "calculate":
        rows += [{"type": "calculate", "name": "a", "calculation": "1"}]
    elif src in ("hidden", "today", "deviceid", "start-geopoint"):
        rows += [{"type": src, "name": "a"}]
    else:
        rows += [{"type": src, "name": "a", "label": "A"}]
    t = {"type": tgt, "name": "x", "trigger": trig}
    if tgt == "text":
        t["label"] = "X"
    if tgt != "background-geopoint":
        t["calculation"] = "${t0} + 1"
    rows.append(t)
    wb = {"survey": rows, "choices": [dict(c) for c in CHOICES]}
    if src.startswith("padded"):
        wb["settings"] = [{"clean_text_values": "no"}]
    out = run_convert(wb)
    if out.kind == "crash":
        return {"outcome": "crash", "nt": False, "viol": [], "tr": len(rows)}
    if out.kind == "reject":
        return {"outcome": "reject", "nt": True, "viol": [], "tr": len(rows)}
    obs = O.Obs(out.xform)
    acts = [el for el, par, tag in all_setvalues(obs) if el.get("ref") == "/data/x"]
    viol = []
    if len(acts) != 1:
        viol.append((f"triggered-action-lost:trigger-names-{src}", f"{len(acts)} actions for /data/x; trigger cell {trig!r}, target type {tgt}"))
    return {"outcome": "trigger-ok", "nt": not viol, "viol": viol, "tr": len(rows)}


def check_include(case):
    import copy

    from pyxform.builder import create_survey
    from pyxform.errors import PyXFormError

    inner = case["inner"]
    sec = [{"type": "text", "name": "sa", "label": "SA"}]
    trig_ref, target = "/data/sa", "sx"
    if inner == "trigger-calc":
        sec.append({"type": "calculate", "name": "sx", "trigger": "${sa}", "bind": {"calculate": "1 + 1"}})
    elif inner == "trigger-geopoint":
        sec.append({"type": "background-geopoint", "name": "sx", "trigger": "${sa}"})
    elif inner == "dynamic-default":
        sec.append({"type": "text", "name": "sx", "label": "SX", "default": "now()"})
    elif inner == "static-default":
        sec.append({"type": "text", "name": "sx", "label": "SX", "default": "abc"})
    else:
        sec.append({"type": "calculate", "name": "sx", "trigger": "${t0}", "bind": {"calculate": "1 + 1"}})
    inc = {"type": "include", "name": "sec"}
    kids = [{"type": "text", "name": "t0", "label": "T0"}, {"type": "calculate", "name": "own", "trigger": "${t0}", "bind": {"calculate": "2 + 2"}}]
    base = "/data"
    if case["place"] == "top":
        kids.append(inc)
    else:
        kids.append({"type": case["place"], "name": "w", "label": "W", "children": [inc]})
        base = "/data/w"
    main = {"type": "survey", "name": "data", "id_string": "data", "title": "data", "children": kids}
    try:
        sv = create_survey(name_of_main_section="data", sections=copy.deepcopy({"data": main, "sec": {"type": "survey", "name": "sec", "children": sec}}))
        x = sv.to_xml(validate=False, pretty_print=False)
    except PyXFormError as e:
        return {"outcome": "reject", "nt": False, "viol": [], "tr": 5, "unexp": True, "why": str(e)[:160]}
    except Exception as e:  # noqa: BLE001
        return {"outcome": "crash", "nt": False, "viol": [(f"include:internal-exception:{type(e).__name__}", str(e)[:160])], "tr": 5}
    obs = O.Obs(x)
    acts = all_setvalues(obs)
    viol = []
    px = f"{base}/sx"
    mine = [(el, par) for el, par, tag in acts if el.get("ref") == px]
    own = [el for el, par, tag in acts if el.get("ref") == "/data/own"]
    if len(own) != 1:
        viol.append(("include:outer-trigger-action-count", f"{len(own)} actions for /data/own"))
    node_ = obs.paths.get(px)
    text = (node_.text or "") if node_ is not None else None
    in_rep = case["place"] == "repeat"
    if inner == "static-default":
        if text != "abc" or mine:
            viol.append(("include:static-default-not-exactly-once", f"text={text!r} actions={len(mine)}"))
    else:
        if text not in ("",) or len(mine) != 1:
            viol.append((f"include:action-not-exactly-once:{inner}", f"text={text!r} actions={len(mine)} for {px}"))
        elif inner.startswith("trigger"):
            want_par = "/data/t0" if inner == "trigger-to-outer" else f"{base}/sa"
            par = mine[0][1]
            if par == "model" or par is None or par.get("ref") != want_par:
                viol.append((f"include:action-not-nested-in-trigger-control:{inner}", f"expected inside {want_par}"))
    b = obs.bind_map().get(px, [None])[0]
    if inner.startswith("trigger") and b is not None and b.get("calculate") is not None:
        viol.append(("include:triggered-calculation-also-on-bind", b.get("calculate")))
    return {"outcome": "trigger-ok" if inner.startswith("trigger") else ("dynamic-repeat" if in_rep and inner == "dynamic-default" else "static"), "nt": not viol, "viol": viol, "tr": 5}


def check_special(case):
    rows = [{"type": "text", "name": "t0", "label": "T0"}]
    if case["k"] == "tablelist":
        feat = {"type": case["sel"], "name": "s1", "label": "S1"}
        if case["default"] is not None:
            feat["default"] = case["default"]
        if case["trig"]:
            feat.update(trigger="${t0}", calculation="'y'")
        other = {"type": case["sel"], "name": "s2", "label": "S2"}
        body = [{"type": "begin group", "name": "tl", "label": "TL", "appearance": "table-list"}, *([feat, other] if case["pos"] == 0 else [other, feat]), {"type": "end group"}]
        choices = [dict(c) for c in CHOICES]
        own = "s1"
    else:
        body = [{"type": case["type"], "name": "s1", "label": "S1", "default": case["name"]}]
        choices = [{"list_name": "d", "name": case["name"], "label": "N"}, {"list_name": "d", "name": "other1", "label": "O"}]
        own = "s1"
    if case["ctx"] == "repeat":
        body = [{"type": "begin repeat", "name": "r", "label": "R"}, *body, {"type": "end repeat"}]
    out = run_convert({"survey": rows + body, "choices": choices})
    ntr = len(rows) + len(body)
    if out.kind != "ok":
        return {"outcome": out.kind, "nt": False, "viol": [], "tr": ntr, "unexp": out.kind == "reject", "why": out.msg}
    obs = O.Obs(out.xform)
    viol = []
    base = "/data/r" if case["ctx"] == "repeat" else "/data"
    px = f"{base}/tl/{own}" if case["k"] == "tablelist" else f"{base}/{own}"
    acts = all_setvalues(obs)
    mine = [el for el, par, tag in acts if el.get("ref") == px]
    stray = [el.get("ref") for el, par, tag in acts if el.get("ref") != px]
    if stray:
        viol.append((f"stray-action:{case['k']}", f"{stray} (own node {px})"))
    copies = [obs.paths.get(px)] + list(obs.template_paths.get(px, []))
    texts = [(c.text or "") for c in copies if c is not None]
    if case["k"] == "tablelist":
        dflt, trig = case["default"], case["trig"]
        want_lit = dflt if dflt in ("abc", "y") else ""
        want_acts = (1 if dflt == "${t0}" else 0) + (1 if trig else 0)
        if any(t != want_lit for t in texts) or len(mine) != want_acts:
            viol.append((f"tablelist-default-or-trigger-not-exactly-once:{'default' if dflt else ''}{'+trigger' if trig else ''}", f"texts={texts} actions={len(mine)} want literal {want_lit!r} x{len(texts)} and {want_acts} actions"))
        # no other node of the form holds the literal
        for p_, el in obs.paths.items():
            if p_ != px and dflt in ("abc", "y") and (el.text or "").strip() == dflt:
                viol.append(("tablelist-default-on-another-node", p_))
    else:
        lit = all(t == case["name"] for t in texts) and not mine
        dyn = all(t == "" for t in texts) and len(mine) == 1
        if lit == dyn:
            viol.append((f"default-not-exactly-once:select", f"default={case['name']!r} texts={texts} actions={len(mine)}"))
        elif dyn:
            # the default names a choice of the question's own list: it is a selection, not arithmetic
            viol.append((f"choice-name-default-became-expression:{case['name']}", f"setvalue value={mine[0].get('value')!r} (evaluates as XPath arithmetic, not as the choice)"))
    return {"outcome": "static" if not mine else "dynamic-model", "nt": not viol, "viol": viol, "tr": ntr}


def check_one(case):
    if case["k"] == "trigsrc":
        return check_trigsrc(case)
    if case["k"] == "include":
        return check_include(case)
    if case["k"] in ("tablelist", "choicedefault"):
        return check_special(case)
    wb, nodes = build(case)
    out = run_convert(wb)
    ntr = len(wb["survey"])
    if out.kind != "ok":
        return {"outcome": out.kind, "nt": False, "viol": [], "tr": ntr, "unexp": out.kind == "reject", "why": out.msg}
    obs = O.Obs(out.xform)
    if case["k"] == "default":
        return check_default(case, nodes, obs, ntr)
    if case["k"] == "trigger2":
        return check_trigger2(case, nodes, obs, ntr)
    return check_trigger(case, nodes, obs, ntr)


def all_setvalues(obs):
    """[(element, parent element or 'model', local tag)] for every setvalue-like action"""
    out = []
    for el in obs.model:
        if O.local(el.tag) in ("setvalue", "setgeopoint"):
            out.append((el, "model", O.local(el.tag)))
    for el, tag, ref, anc in obs.body_controls():
        if tag in ("setvalue", "setgeopoint"):
            out.append((el, anc[-1] if anc else None, tag))
    return out


def check_default(case, nodes, obs, ntr):
    nd = nodes[case["q"]]
    px = "/" + "/".join(nd["path"])
    tok, ty = case["tok"], case["type"]
    viol = []
    copies = [obs.paths.get(px)] + list(obs.template_paths.get(px, []))
    if copies[0] is None:
        return {"outcome": "ok", "nt": False, "viol": [("node-missing", px)], "tr": ntr}
    texts = [(c.text or "") for c in copies]
    svs = [(el, par) for el, par, tag in all_setvalues(obs) if el.get("ref") == px]
    reps = repeat_ancestors(nodes, nd["i"])
    expect_lit = tok
    if ty == "image" and "jr://images/" not in tok:
        expect_lit = "jr://images/" + tok
    cls = TOKENS[tok]
    if cls == "d" and ty in DATE_LIKE and "-" in tok.replace("${t0}", "") and "(" not in tok and "${" not in tok:
        cls = "?"  # a bare hyphen between literals may be date / coordinate text for these types
    is_static = all(norm_ws(t) == norm_ws(expect_lit) for t in texts) and not svs
    is_dynamic = all(t == "" for t in texts) and len(svs) == 1
    sigctx = f"{ty.split()[0]}"
    outcome = "static"
    if is_static == is_dynamic:
        viol.append((f"default-not-exactly-once:{sigctx}", f"tok={tok!r} node texts={texts} setvalues={len(svs)}"))
    elif is_static:
        if cls == "d":
            viol.append((f"dynamic-default-written-as-literal:{sigctx}", f"tok={tok!r}"))
        if len(texts) != 1 + len(obs.template_paths.get(px, [])):
            viol.append(("template-copy-missing", px))
    else:
        if cls == "s":
            viol.append((f"static-default-became-setvalue:{sigctx}", f"tok={tok!r}"))
        el, par = svs[0]
        ev = (el.get("event") or "").split()
        subs = align(tok, el.get("value") or "")
        if subs is None:
            viol.append((f"setvalue-value-altered:{sigctx}", f"tok={tok!r} value={el.get('value')!r}"))
        else:
            for raw in subs:
                p = Path(raw)
                if not p.ok or p.resolve(nd["path"]) != ["data", "t0"]:
                    viol.append((f"setvalue-reference-wrong:{sigctx}", raw))
        if not reps:
            outcome = "dynamic-model"
            if par != "model":
                viol.append(("setvalue-not-in-model-for-non-repeat-node", px))
            if ev != ["odk-instance-first-load"]:
                viol.append(("setvalue-event-model", str(ev)))
        else:
            outcome = "dynamic-repeat"
            inner = "/" + "/".join(nodes[reps[0]]["path"])
            if par == "model" or par is None or O.local(par.tag) != "repeat" or par.get("nodeset") != inner:
                where = "model" if par == "model" else (par.get("nodeset") or par.get("ref") if par is not None else None)
                viol.append(("setvalue-not-in-innermost-repeat-body", f"{px}: parent={where} expected repeat {inner}"))
            if sorted(ev) != ["odk-instance-first-load", "odk-new-repeat"]:
                viol.append(("setvalue-event-repeat", str(ev)))
    twin_px = None
    if case.get("twin"):
        # the namesake in its own section: its default, classified by its own token, exactly once as well
        tok2, cont, _ = case["twin"]
        twin_px = f"/data/twz9/{nd['path'][-1]}"
        tcopies = [obs.paths.get(twin_px)] + list(obs.template_paths.get(twin_px, []))
        tsv = [el for el, par, tag in all_setvalues(obs) if el.get("ref") == twin_px]
        if tcopies[0] is None:
            viol.append(("twin-node-missing", twin_px))
        else:
            ttexts = [(c.text or "") for c in tcopies]
            t_static = all(norm_ws(t) == norm_ws(tok2) for t in ttexts) and not tsv
            t_dynamic = all(t == "" for t in ttexts) and len(tsv) == 1 and align(tok2, tsv[0].get("value") or "") is not None
            want = TOKENS.get(tok2, "s")
            if (want == "s" and not t_static) or (want == "d" and not t_dynamic):
                viol.append((f"twin-default-wrong:{'static' if want == 's' else 'dynamic'}-twin-in-{cont}", f"tok2={tok2!r} texts={ttexts} setvalues={[e.get('value') for e in tsv]}"))
    # nowhere else: the literal must not leak into other nodes, no other setvalue at all
    others = [el.get("ref") for el, par, tag in all_setvalues(obs) if el.get("ref") not in (px, twin_px)]
    if others:
        viol.append(("stray-setvalue", str(others)))
    return {"outcome": outcome, "nt": bool(reps) and not viol, "viol": viol, "tr": ntr}


def check_trigger2(case, nodes, obs, ntr):
    """one triggering question, two triggered targets: each gets exactly its own action with exactly its own value"""
    T = nodes[case["t"]]
    pt = "/" + "/".join(T["path"])
    viol = []
    targets = {}
    for key, calc in zip(("x", "y"), case["calcs"]):
        X = nodes[case[key]]
        targets["/" + "/".join(X["path"])] = (X, calc)
    for px, (X, calc) in targets.items():
        acts = [(el, par, tag) for el, par, tag in all_setvalues(obs) if el.get("ref") == px]
        if len(acts) != 1:
            viol.append(("trigger2-action-count", f"{len(acts)} actions target {px}"))
            continue
        el, par, tag = acts[0]
        if par == "model" or par is None or par.get("ref") != pt:
            viol.append(("trigger2-action-not-nested-in-trigger-control", f"{px}"))
        if calc:
            subs = align(calc, el.get("value") or "")
            if subs is None:
                viol.append(("trigger2-value-of-another-target-or-altered", f"{px}: {calc!r} -> {el.get('value')!r}"))
            else:
                for raw in subs:
                    p = Path(raw)
                    if not p.ok or p.resolve(X["path"]) != ["data", "t0"]:
                        viol.append(("trigger2-value-reference-wrong", raw))
        elif el.get("value") not in (None, ""):
            viol.append(("trigger2-value-invented", f"{px}: value={el.get('value')!r} but the row has no calculation"))
        b = obs.bind_map().get(px, [None])[0]
        if b is not None and b.get("calculate") is not None:
            viol.append(("triggered-calculation-also-on-bind", b.get("calculate")))
    others = [el.get("ref") for el, par, tag in all_setvalues(obs) if el.get("ref") not in targets]
    if others:
        viol.append(("stray-setvalue", str(others)))
    return {"outcome": "trigger-ok", "nt": not viol, "viol": viol[:4], "tr": ntr}


def check_trigger(case, nodes, obs, ntr):
    X, T = nodes[case["x"]], nodes[case["t"]]
    px, pt = "/" + "/".join(X["path"]), "/" + "/".join(T["path"])
    viol = []
    want_tag = "setgeopoint" if case["type"] == "background-geopoint" else "setvalue"
    acts = [(el, par, tag) for el, par, tag in all_setvalues(obs) if el.get("ref") == px]
    if len(acts) != 1:
        viol.append((f"trigger-action-count:{case['type']}", f"{len(acts)} actions target {px}"))
    else:
        el, par, tag = acts[0]
        if tag != want_tag:
            viol.append((f"trigger-action-tag:{case['type']}", tag))
        if par == "model" or par is None or par.get("ref") != pt or O.local(par.tag) in ("group", "repeat"):
            viol.append(("trigger-action-not-nested-in-trigger-control", f"parent={None if par in (None, 'model') else par.get('ref')} expected {pt}"))
        if el.get("event") != "xforms-value-changed":
            viol.append(("trigger-event", str(el.get("event"))))
        if case["calc"]:
            subs = align(case["calc"], el.get("value") or "")
            if subs is None:
                viol.append(("trigger-value-altered", f"{case['calc']!r} -> {el.get('value')!r}"))
            else:
                for raw in subs:
                    p = Path(raw)
                    if not p.ok or p.resolve(X["path"]) != ["data", "t0"]:
                        viol.append(("trigger-value-reference-wrong", raw))
        elif el.get("value") not in (None, ""):
            viol.append(("trigger-value-invented", el.get("value")))
    b = obs.bind_map().get(px, [None])[0]
    if b is not None and b.get("calculate") is not None:
        viol.append(("triggered-calculation-also-on-bind", b.get("calculate")))
    others = [el.get("ref") for el, par, tag in all_setvalues(obs) if el.get("ref") != px]
    if others:
        viol.append(("stray-setvalue", str(others)))
    nt = len(X["path"]) != len(T["path"]) or bool(repeat_ancestors(nodes, X["i"]))
    return {"outcome": "trigger-ok", "nt": nt and not viol, "viol": viol, "tr": ntr}

# as-built additions of the seventh wave (reported with the bound in the evidence)
BOUND = {k: v + "; seventh wave: " + 'trigger cells with blanks around the reference, cell cleaning off' for k, v in BOUND.items()}
