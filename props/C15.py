"""C15 - pretty_print is purely cosmetic."""

import itertools

from xmc import grid
from xmc import observe as O
from xmc.impl import run_convert
from xmc.ref import catalogue as cat
from xmc.spaces import GenSpace
from props import C01, C06, C10

ID = "C15"
LEVEL = "model_checking"
TECHNIQUE = "exhaustive differential exploration: every form of five bounded generators converted twice by the implementation (compact and pretty) and the two parsed documents compared under the 'whitespace-only text between elements' relation"
CLAIM = ("Every form of the adversarial text space (edge/double spaces let through with clean_text_values=no), the sparse "
         "translation grid, the default-token table, the type catalogue and the layout space is converted in both print modes by the "
         "real code; the two documents must have the same tree, attributes and namespaces and identical text in every non-element-content element.")
RULE = (
    "case = one form of the union space; both print modes are executed; non-trivial = accepted form containing mixed content "
    "(text with an output element), text with edge or double spaces, or itext values; distinct by canonical case hash"
)
ASSUMPTIONS = [
    "whitespace-only text is ignorable only inside elements that have element children and no other text (element content)",
]
BOUND = {
    "quick": "text strings of <=2 fragments x 9 channels x 4 reference placements x clean_text_values {yes,no}; grid subsets <=2 x 2 default languages; 22 default tokens x 11 types x {top, repeat}; type catalogue x 5 decorations x 3 contexts; L(4,3) x 3 rotations",
    "thorough": "text strings of <=3 fragments; grid subsets <=3 (core); other generators as quick with L(5,3)",
}
# as-built additions to the bound (kept next to BOUND so that the evidence reports them)
BOUND = {k: v + "; plus: " + 'texts with 1-33 references; 28 structure-element names and 4 non-ASCII names as question / group / choice-column names holding text; line breaks, tabs and space runs in 19 attribute-valued cells on short and very wide start tags; 13 multi-line texts (references alone on their line, tabs, CR LF) x 9 channels; dict input with numeric / boolean cells (subsets <=2 / <=4 of 10 cells)' for k, v in BOUND.items()}
TEXT_CH = ["label", "hint", "guidance_hint", "constraint_message", "glabel", "clabel", "cextra", "default", "form_title"]


def gen_text(tier):
    n = 2 if tier == "quick" else 3
    for s in C06.strings(n):
        if not s.strip() or "${" in s:
            continue
        for ch in TEXT_CH:
            if ch == "default" and any(c in s for c in "-*+|(["):
                continue
            refs = ["none", "before", "after", "between"] if ch in C06.OUTPUT_CH else ["none"]
            for ref in refs:
                for clean in (True, False):
                    if not clean and s == s.strip() and "  " not in s:
                        continue
                    yield {"g": "text", "ch": ch, "s": s, "ref": ref, "clean": clean, "lang": ref == "after"}


def gen_grid(tier):
    k = 2 if tier == "quick" else 3
    cs = grid.cells(tier != "quick")
    for combo in grid.subsets(cs, k):
        for dl in (None, "en"):
            yield {"g": "grid", "cells": [list(c) for c in combo], "dl": dl, "ref": len(combo) % 2 == 1}


def gen_defaults(tier):
    for ty in C10.TYPES:
        for tok in C10.TOKENS:
            for ctx in ("top", "repeat"):
                yield {"g": "default", "type": ty, "tok": tok, "ctx": ctx}


def gen_types(tier):
    for c in C01.gen_types(tier):
        yield {"g": "wb", "wb": c["wb"]}


def gen_layouts(tier):
    for c in C01.gen_layouts(tier):
        yield {"g": "wb", "wb": c["wb"]}


ML_TEXTS = ["a \nb", "a\t\nb", "a\u00a0\nb", "a\u2028b", "a\u2029b", "a\x85b", "a \n ${t0} \n b", "a\n\n", "x \n${t0} \ny", "a\nb", "a\n${t0}\nb", "\n${t0}", "${t0}\nb", "a\n\nb", "a\n ${t0}\n b", "a\t${t0}\tb", "a\r\nb", "${t0}\n${t0}", "a\n${t0}", " \n${t0}\n ",
            "x ${t0}\ny ${t0}\nz", "a\n<b>\n${t0}\n&"]


def gen_multiline(tier):
    """text with line breaks / tabs, in particular references standing alone on their line"""
    for ch in TEXT_CH:
        for t in ML_TEXTS:
            if "${" in t and ch not in C06.OUTPUT_CH:
                continue
            for lang in ((False, True) if ch in C06.LANG_CH else (False,)):
                for clean in (True, False):
                    yield {"g": "ml", "ch": ch, "s": t, "lang": lang, "clean": clean}


# (numeric labels, hints and settings values are not accepted by the dict API at all - internal exceptions, see DESIGN.md
# section 7 observations - so the typed cells are those a dict caller can actually use: defaults, choice names, extra columns)
TYPED_CELLS = [("survey", 0, "default", 1), ("survey", 1, "default", 7), ("choices", 0, "name", 1), ("choices", 0, "w", 1.5), ("choices", 1, "w", True),
               ("choices", 1, "name", 2.5), ("survey", 1, "default", 7.25), ("choices", 0, "v", 0), ("choices", 1, "v", False), ("survey", 2, "default", 12)]


def typed_wb(mask):
    wb = {"survey": [{"type": "select_one c", "name": "s", "label": "S", "default": "1"}, {"type": "integer", "name": "n", "label": "5", "default": "7", "hint": "2.5"},
                     {"type": "note", "name": "z", "label": "0"}],
          "choices": [{"list_name": "c", "name": "1", "label": "2", "w": "1.5", "v": "0"}, {"list_name": "c", "name": "b", "label": "B", "w": "True", "v": "False"}],
          "settings": [{"version": "3"}]}
    for i, (sh, r, col, v) in enumerate(TYPED_CELLS):
        if mask >> i & 1:
            wb[sh][r][col] = v
    return wb


def gen_typed(tier):
    """dict input whose cells hold numbers / booleans instead of strings"""
    n = len(TYPED_CELLS)
    masks = [m for m in range(1 << n) if bin(m).count("1") <= (2 if tier == "quick" else 4)] + [(1 << n) - 1]
    for m in masks:
        yield {"g": "typed", "mask": m}


API_FORMS = {
    "grp": {"survey": [{"type": "text", "name": "a", "label": "A ${b}"}, {"type": "begin group", "name": "g", "label": "G"},
                       {"type": "text", "name": "b", "label": "B"}, {"type": "end group"}]},
    "rep": {"survey": [{"type": "begin repeat", "name": "r", "label": "R"}, {"type": "select_one c", "name": "s", "label::en": "S", "label::fr": "Sf"},
                       {"type": "end repeat"}], "choices": [{"list_name": "c", "name": "x", "label::en": "X", "label::fr": "Xf"}]},
}


def gen_api(tier):
    """one survey object: serialise in one style, change a nested element, then serialise in both styles"""
    for form in API_FORMS:
        for first in ("pretty", "compact", "both"):
            for mut in ("add-nested-question", "relabel-nested-question", "add-top-question", "none"):
                yield {"g": "api", "form": form, "first": first, "mut": mut}


# names a form author may give to instance nodes / choice columns that are also names of XForm structure elements
STRUCT_NAMES = ["text", "item", "root", "instance", "model", "itext", "translation", "value", "label", "hint", "bind", "meta", "input", "group", "repeat",
                "html", "head", "body", "title", "name", "itextId", "output", "select1", "setvalue", "instanceID", "entity", "data", "submission",
                "pr\u00e9nom", "\u00e9t\u00e9", "\u540d\u524d", "\u0436_\u0436"]
NM_VALUES = ["hello world", " x ", "a  b", "a\nb"]


def gen_structnames(tier):
    """questions / groups / choice columns named like XForm structure elements, holding text (a static default, a column value)"""
    for nm in STRUCT_NAMES:
        for val in NM_VALUES:
            for ctx in ("top", "group", "repeat"):
                for clean in (True, False):
                    if not clean and val == "hello world":
                        continue
                    yield {"g": "names", "nm": nm, "val": val, "ctx": ctx, "clean": clean, "as": "question"}
            yield {"g": "names", "nm": nm, "val": val, "ctx": "top", "clean": False, "as": "column"}
            yield {"g": "names", "nm": nm, "val": val, "ctx": "top", "clean": False, "as": "group"}


LONG = "a_rather_long_question_name_for_wide_tags"
LA_COLS = ["constraint_message", "required_message", "calculation", "relevant", "constraint", "required", "bind::custom", "bind::jr:noAppErrorString", "body::custom", "instance::custom",
           "appearance", "default", "settings.attribute::zz", "settings.instance_name", "settings.submission_url", "repeat_count", "choice_filter", "trigger", "parameters.seed"]
LA_VALUES = ["1\n+ 2", "1\t+ 2", "1\r\n+ 2", "1   +   2", "1 +\n\n2", "1 + 2\n"]


def gen_longattr(tier):
    """attribute values with line breaks / tabs / runs of spaces on elements whose start tag is short or very long (nesting depth 0..2 under long names)"""
    for col in LA_COLS:
        for val in LA_VALUES:
            for depth in (0, 1, 2):
                for nattr in (0, 3):
                    yield {"g": "longattr", "col": col, "val": val, "depth": depth, "nattr": nattr}


def gen_manyrefs(tier):
    """one text with many references (a summary note): however many child nodes an element holds, mixed content stays mixed content"""
    for n in (1, 2, 5, 7, 8, 9, 12, 17, 33):
        for ch in ("label", "hint", "constraint_message", "clabel", "glabel", "guidance_hint"):
            for sep in (", ", " ", "\n"):
                for lang in (False, True):
                    yield {"g": "manyrefs", "n": n, "ch": ch, "sep": sep, "lang": lang}


def gen_corpus(tier):
    """the frozen corpus of realistic workbooks (xmc/corpus.py): every form in both print modes"""
    from xmc import corpus

    for cid, name, wb in corpus.forms():
        yield {"g": "wb", "wb": wb, "corpus": cid}


SPACE = GenSpace({"corpus": gen_corpus, "manyrefs": gen_manyrefs, "structnames": gen_structnames, "longattr": gen_longattr, "api": gen_api, "text": gen_text, "grid": gen_grid, "defaults": gen_defaults, "types": gen_types, "layouts": gen_layouts,
                  "multiline": gen_multiline, "typed": gen_typed}, chunk=400)
blocks = SPACE.blocks
expand = SPACE.expand


def required_outcomes(tier):
    return {"ok"}


def build(case):
    g = case["g"]
    if g == "text":
        wb = C06.build(case["ch"], C06.with_ref(case["s"], case["ref"]), case["lang"])
        if not case["clean"]:
            wb.setdefault("settings", [{}])[0]["clean_text_values"] = "no"
        return wb, {}
    if g == "ml":
        wb = C06.build(case["ch"], case["s"], case["lang"])
        if not case["clean"]:
            wb.setdefault("settings", [{}])[0]["clean_text_values"] = "no"
        return wb, {}
    if g == "manyrefs":
        text = case["sep"].join(f"F{i}: ${{t0}}" for i in range(case["n"])) + " end"
        return C06.build(case["ch"], text, case["lang"]), {}
    if g == "typed":
        return typed_wb(case["mask"]), {}
    if g == "names":
        nm, val = case["nm"], case["val"]
        rows = [{"type": "text", "name": "t0", "label": "T0"}]
        ch = [{"list_name": "c", "name": "x", "label": "X"}, {"list_name": "c", "name": "y", "label": "Y"}]
        if case["as"] == "question":
            q = [{"type": "text", "name": nm, "label": "Q", "default": val}]
        elif case["as"] == "group":
            q = [{"type": "begin group", "name": nm, "label": "G"}, {"type": "text", "name": "inner", "label": "I", "default": val}, {"type": "end group"}]
        else:
            q = [{"type": "select_one c", "name": "s", "label": "S"}]
            ch[0][nm] = val
            ch[1][nm] = "plain"
        if case["ctx"] != "top":
            q = [{"type": f"begin {case['ctx']}", "name": "w", "label": "W"}, *q, {"type": f"end {case['ctx']}"}]
        wb = {"survey": rows + q, "choices": ch}
        if not case["clean"]:
            wb["settings"] = [{"clean_text_values": "no"}]
        return wb, {}
    if g == "longattr":
        col, val = case["col"], case["val"]
        q = {"type": "integer", "name": LONG, "label": "Q"}
        extra = {f"bind::x{i}": "some value that makes the tag wide " + str(i) for i in range(case["nattr"])}
        q.update(extra)
        wb = {"settings": [{"clean_text_values": "no"}]}
        rows = [{"type": "text", "name": "t0", "label": "T0"}]
        ch = [{"list_name": "c", "name": "x", "label": "X", "f": "1"}]
        if col.startswith("settings."):
            wb["settings"][0][col.split(".", 1)[1]] = val
        elif col == "repeat_count":
            q = None
        elif col == "choice_filter":
            q.update(type="select_one c", choice_filter="f = " + val)
        elif col == "trigger":
            q.update(type="calculate", calculation=val, trigger="${t0}")
            q.pop("label")
        elif col == "parameters.seed":
            q.update(type="select_one c", parameters="randomize=true seed=7")
            q["label"] = val
        elif col == "calculation":
            q[col] = val
        elif col in ("appearance",):
            q[col] = val.replace("1", "w1").replace("+", "w").replace("2", "w2")
        else:
            q[col] = val
            if col == "constraint_message":
                q["constraint"] = ". > 0"
            if col == "required_message":
                q["required"] = "yes"
        body = [q] if q else [{"type": "begin repeat", "name": LONG, "label": "R", "repeat_count": val, **extra}, {"type": "text", "name": "i", "label": "I"}, {"type": "end repeat"}]
        for d in range(case["depth"]):
            body = [{"type": "begin group", "name": f"{LONG}_{d}", "label": "G"}, *body, {"type": "end group"}]
        wb.update(survey=rows + body, choices=ch)
        return wb, {}
    if g == "grid":
        return grid.build([tuple(c) for c in case["cells"]], case["dl"], ref=case["ref"])
    if g == "default":
        q = {"type": case["type"], "name": "q", "label": "Q", "default": case["tok"]}
        if case["type"] == "calculate":
            q["calculation"] = "1"
        rows = [{"type": "text", "name": "t0", "label": "T0"}]
        rows += [q] if case["ctx"] == "top" else [{"type": "begin repeat", "name": "r", "label": "R"}, q, {"type": "end repeat"}]
        return {"survey": rows, "choices": [dict(c) for c in C10.CHOICES]}, {}
    return case["wb"], {}


def is_ws(s):
    return s is None or s.strip() == ""


def canon(el):
    kids = list(el)
    attrs = tuple(sorted(el.attrib.items()))
    if kids and is_ws(el.text) and all(is_ws(k.tail) for k in kids):
        return (el.tag, attrs, "E", tuple(canon(k) for k in kids))
    toks = [el.text or ""]
    for k in kids:
        toks.append(canon(k))
        toks.append(k.tail or "")
    return (el.tag, attrs, "T", tuple(toks))


def first_diff(a, b, path=""):
    if a[0] != b[0]:
        return f"{path}: tag {a[0]} vs {b[0]}"
    p = path + "/" + O.local(a[0])
    if a[1] != b[1]:
        return f"{p}: attributes {a[1]} vs {b[1]}"
    if a[2] != b[2]:
        return f"{p}: content kind {a[2]} vs {b[2]} ({a[3]!r} vs {b[3]!r})"[:300]
    if len(a[3]) != len(b[3]):
        return f"{p}: {len(a[3])} vs {len(b[3])} content items"
    for x, y in zip(a[3], b[3]):
        if isinstance(x, tuple) and isinstance(y, tuple):
            d = first_diff(x, y, p)
            if d:
                return d
        elif x != y:
            return f"{p}: text {x!r} vs {y!r}"
    return None


def features(t):
    """(has mixed content, has edge/double-space text)"""
    mixed = spaced = False
    stack = [t]
    while stack:
        n = stack.pop()
        if n[2] == "T":
            if any(isinstance(x, tuple) for x in n[3]):
                mixed = True
            for x in n[3]:
                if isinstance(x, str) and x and (x != x.strip() or "  " in x):
                    spaced = True
        stack.extend(x for x in n[3] if isinstance(x, tuple))
    return mixed, spaced


def check_api(case):
    import copy

    from pyxform.builder import create_survey_element_from_dict
    from pyxform.xls2xform import convert

    sv = convert(copy.deepcopy(API_FORMS[case["form"]]))._survey
    try:
        if case["first"] in ("pretty", "both"):
            sv.to_xml(validate=False, pretty_print=True)
        if case["first"] in ("compact", "both"):
            sv.to_xml(validate=False, pretty_print=False)
        nested = next(c for c in sv.children if getattr(c, "children", None) and c.name in ("g", "r"))
        if case["mut"] == "add-nested-question":
            nested.add_child(create_survey_element_from_dict({"type": "text", "name": "age", "label": "Age"}))
        elif case["mut"] == "relabel-nested-question":
            nested.children[0].label = "Changed" if isinstance(nested.children[0].label, str) else {"en": "Changed", "fr": "Chang\u00e9"}
        elif case["mut"] == "add-top-question":
            sv.add_child(create_survey_element_from_dict({"type": "integer", "name": "top2", "label": "Top"}))
        xa = sv.to_xml(validate=False, pretty_print=False)
        xb = sv.to_xml(validate=False, pretty_print=True)
    except Exception as e:  # noqa: BLE001 - the object API may refuse an edit: not a verdict about printing
        return {"outcome": "api-refused", "nt": False, "viol": [], "tr": 3, "why": f"{type(e).__name__}: {e}"[:100]}
    viol = []
    d = first_diff(canon(O.parse(xa)), canon(O.parse(xb)))
    if d:
        viol.append((f"print-modes-differ:api:{case['mut']}", f"first={case['first']}: {d}"))
    return {"outcome": "ok", "nt": case["mut"] != "none" and not viol, "viol": viol, "tr": 4}


def check_one(case):
    if case["g"] == "api":
        return check_api(case)
    wb, kw = build(case)
    a = run_convert(wb, pretty_print=False, **kw)
    b = run_convert(wb, pretty_print=True, **kw)
    ntr = 2 * (len(wb["survey"]) + len(wb.get("choices", ())))
    g = case["g"]
    if a.kind != b.kind:
        return {"outcome": "differs", "nt": False, "viol": [(f"outcome-differs-by-print-mode:{g}", f"{a.kind} vs {b.kind}")], "tr": ntr}
    if a.kind != "ok":
        return {"outcome": a.kind, "nt": False, "viol": [], "tr": ntr}
    try:
        ta, tb = canon(O.parse(a.xform)), canon(O.parse(b.xform))
    except O.ParseFailure as e:
        return {"outcome": "ok", "nt": False, "viol": [(f"unparseable:{g}", str(e))], "tr": ntr}
    viol = []
    d = first_diff(ta, tb)
    if d:
        where = d.split(":")[0].split("/")[-1]
        viol.append((f"print-modes-differ:{g}:{where}", d))
    if case.get("corpus"):
        viol = [(f"{s_}:corpus", d_) for s_, d_ in viol]
    if O.nsmap_of(a.xform) != O.nsmap_of(b.xform):
        viol.append((f"namespaces-differ:{g}", ""))
    mixed, spaced = features(ta)
    return {"outcome": "ok", "nt": (mixed or spaced or "itext" in a.xform) and not viol, "viol": viol, "tr": ntr}

# as-built additions of the seventh wave (reported with the bound in the evidence)
BOUND = {k: v + "; seventh wave: " + 'the frozen corpus in both print modes' for k, v in BOUND.items()}
