"""C07 - every itext reference resolves in every language (closure invariant over the sparse
translation grid)."""

import itertools
import re

from xmc import grid
from xmc import observe as O
from xmc.impl import run_convert

ID = "C07"
LEVEL = "model_checking"
TECHNIQUE = "explicit-state small-scope exploration: every subset (bounded size) of filled cells of a rows x translatable-columns x languages grid on survey and choices sheets x default_language, executed on the implementation; closure invariant over the itext block"
CLAIM = ("Every subset up to the bound of the ~100 cells of the translation grid (3 survey rows incl. a group and a select whose "
         "2-choice list is shared by a second select; 9 translatable columns; unsuffixed/en/fr; choices label/image/audio), under "
         "three default_language settings and with/without embedded references, is converted by the real code and the itext closure "
         "invariant is evaluated on every accepted output.")
RULE = (
    "case = (subset of grid cells, default_language in {unset, en, zz}, reference mode); non-trivial = accepted form with at least "
    "two translations or at least one itext reference whose resolution was checked in every language; distinct by canonical case hash"
)
ASSUMPTIONS = [
    "languages restricted to unsuffixed/en/fr and default_language to unset/en/zz",
    "subset size bounded as stated; cells hold distinct marker texts",
]
BOUND = {
    "quick": "all subsets of size <=2 of the full 99-cell grid x 3 default languages x {plain, ${ref}}; all subsets of size 3 of the 57-cell core grid x 3 default languages",
    "thorough": "all subsets of size <=3 of the full grid x 3 default languages; all subsets of size 4 of the core grid x 3 default languages",
}
# as-built additions to the bound (kept next to BOUND so that the evidence reports them)
BOUND = {k: v + "; plus: " + 'object API: generate, add an itext-needing element (5 kinds, top / nested), generate again; names with a namespace prefix; 13 other row kinds (hidden calculations, repeats, label-less containers, rank, range, ...) x cell subsets <=2 (thorough <=3) of 7 columns x 3 languages; two choice lists with every mix of translated / partly translated / label-less / media-only choices in either sheet order; both left-to-right column orders; language tags differing only in case (core grid, subsets <=2 / <=3); noAppErrorString cells; search() select; label-less choices; keyword-bearing element names; OSM tags with (un)translated labels' for k, v in BOUND.items()}
DEFLANGS = [None, "en", "zz"]


def blocks(tier):
    from xmc import corpus

    for s in range(0, len(corpus.load()), 100):
        yield ("corpus", s)
    full = len(grid.cells(False))
    core = len(grid.cells(True))
    plan = [(False, 0), (False, 1), (False, 2), (True, 3)] if tier == "quick" else [(False, 0), (False, 1), (False, 2), (False, 3), (True, 4)]
    for is_core, k in plan:
        n = core if is_core else full
        if k == 0:
            yield (is_core, 0, 0)
            continue
        for first in range(n - k + 1):
            yield (is_core, k, first)
    # language tags that differ only in case (pyxform treats them as two languages): core grid, subsets <= 2 (quick) / 3
    for k in ((1, 2) if tier == "quick" else (1, 2, 3)):
        for first in range(core - k + 1):
            yield ("case", k, first)
    yield ("napp",)
    yield ("osm",)
    for rk in FREE_ROWS:
        yield ("free-row", rk)
    yield ("free-lists", 0)
    yield ("free-lists", 1)
    yield ("api",)
    for k in ((1, 2) if tier == "quick" else (1, 2, 3)):
        for first in range(core - k + 1):
            yield ("names", k, first)
    # the select uses search(): its choices are in-line items whose labels are itext references
    for k in ((1, 2) if tier == "quick" else (1, 2, 3)):
        for first in range(core - k + 1):
            yield ("search", k, first)
    # a choice without any label (accepted with a warning) next to translated / media-bearing / plain siblings
    for k in ((0, 1, 2) if tier == "quick" else (0, 1, 2, 3)):
        if k == 0:
            yield ("nolabel", 0, 0)
            continue
        for first in range(core - k + 1):
            yield ("nolabel", k, first)


CASE_LANGS = ["", "en", "EN"]
# element names that contain the keywords the translation paths are built from
KEYWORD_ROWS = [[("my_guidance_hint_q", "text"), ("g_label", "begin group"), ("hint", "select_one c")],
                [("label", "text"), ("image_g", "begin group"), ("s_guidance_hint", "select_one c")]]


# ---- forms outside the grid: other kinds of rows (hidden questions, repeats, label-less containers) and several choice lists
FREE_ROWS = {
    "calc-hidden": [{"type": "calculate", "name": "k", "calculation": "1 + 1"}],
    "text-calc-hidden": [{"type": "text", "name": "k", "calculation": "1 + 1"}],
    "trigger-hidden": [{"type": "text", "name": "k", "calculation": "now()", "trigger": "${inner}"}],
    "repeat": [{"type": "begin repeat", "name": "k"}, {"type": "text", "name": "ri", "label": "RI"}, {"type": "end repeat"}],
    "group": [{"type": "begin group", "name": "k"}, {"type": "text", "name": "gi", "label": "GI"}, {"type": "end group"}],
    "group-fieldlist": [{"type": "begin group", "name": "k", "appearance": "field-list"}, {"type": "text", "name": "gi", "label": "GI"}, {"type": "end group"}],
    "select_multiple": [{"type": "select_multiple c", "name": "k"}],
    "rank": [{"type": "rank c", "name": "k"}],
    "note": [{"type": "note", "name": "k"}],
    "range": [{"type": "range", "name": "k"}],
    "image": [{"type": "image", "name": "k"}],
    "acknowledge": [{"type": "acknowledge", "name": "k"}],
    "select-file": [{"type": "select_one_from_file f.csv", "name": "k"}],
    # names with a namespace prefix (declared in the settings): the text id holds more than one colon
    "ns-text": [{"type": "text", "name": "ex:k"}],
    "ns-group": [{"type": "begin group", "name": "ex:g", "label": "G"}, {"type": "text", "name": "k"}, {"type": "end group"}],
    "ns-repeat-select": [{"type": "begin repeat", "name": "ex:r", "label": "R"}, {"type": "select_one c", "name": "ex:k"}, {"type": "end repeat"}],
}
FREE_COLS = ["label", "hint", "guidance_hint", "constraint_message", "required_message", "image", "audio"]
FREE_LANGS = ["", "en", "fr"]
LIST_STATES = ["tr", "en", "none", "media"]


def free_header(c, l):
    base = f"media::{c}" if c in ("image", "audio") else c
    return base if not l else f"{base}::{l}"


def gen_free_rows(rk, tier):
    cs = [(c, l) for c in FREE_COLS for l in FREE_LANGS]
    k = 2 if tier == "quick" else 3
    for r in range(0, k + 1):
        for combo in itertools.combinations(cs, r):
            for ref in (False, True):
                if ref and not any(c in ("label", "hint", "constraint_message", "required_message") for c, _ in combo):
                    continue
                for extra in (False, True):
                    yield {"free": {"k": "row", "rk": rk, "cells": [list(x) for x in combo], "extra": extra}, "cells": [], "dl": None, "ref": ref}
                    # one of the cells holds nothing but a blank (dict input keeps such a cell): still a text in that language, or none anywhere
                    for bi in (range(len(combo)) if not ref else ()):
                        yield {"free": {"k": "row", "rk": rk, "cells": [list(x) for x in combo], "extra": extra, "blank": bi}, "cells": [], "dl": None, "ref": ref}


def gen_free_lists(order):
    for cst in itertools.product(LIST_STATES, repeat=3):
        for dst in itertools.product(("tr", "en"), repeat=2):
            yield {"free": {"k": "lists", "c": list(cst), "d": list(dst), "order": order}, "cells": [], "dl": None, "ref": False}


def build_free(case):
    f = case["free"]
    rows = [{"type": "text", "name": "inner", "label": "inner"}]
    choices = [{"list_name": "c", "name": "x", "label": "X"}, {"list_name": "c", "name": "y", "label": "Y"}]
    if f["k"] == "row":
        body = [dict(r) for r in FREE_ROWS[f["rk"]]]
        row = next(r for r in body if r.get("name", "").endswith("k"))
        for c, l in f["cells"]:
            v = f"k.{c}.{l or '0'}" + (".png" if c == "image" else ".mp3" if c == "audio" else "")
            if case["ref"] and c in ("label", "hint", "constraint_message", "required_message"):
                v += " ${inner}"
            if f.get("blank") is not None and [c, l] == list(f["cells"][f["blank"]]):
                v = " "
            row[free_header(c, l)] = v
        if any(c == "constraint_message" for c, _ in f["cells"]):
            row["constraint"] = ". != 'zz'"
        if any(c == "required_message" for c, _ in f["cells"]):
            row["required"] = "yes"
        rows += body
        if f["extra"]:
            rows.append({"type": "text", "name": "t", "label::en": "T", "label::fr": "Tf"})
        wb = {"survey": rows, "choices": choices}
        if f["rk"].startswith("ns-"):
            wb["settings"] = [{"namespaces": 'ex="http://ex.example/ns"'}]
        return wb
    lists = {}
    for ln, states in (("c", f["c"]), ("d", f["d"])):
        out = []
        for i, stt in enumerate(states):
            ch = {"list_name": ln, "name": f"{ln}{i}"}
            if stt == "tr":
                ch.update({"label::en": f"{ln}{i}.en", "label::fr": f"{ln}{i}.fr"})
            elif stt == "en":
                ch["label::en"] = f"{ln}{i}.en"
            elif stt == "media":
                ch["media::image::en"] = f"{ln}{i}.png"
            out.append(ch)
        lists[ln] = out
    choices = lists["c"] + lists["d"] if f["order"] == 0 else lists["d"] + lists["c"]
    rows += [{"type": "select_one c", "name": "sc", "label::en": "SC", "label::fr": "SCf"}, {"type": "select_multiple d", "name": "sd", "label::en": "SD", "label::fr": "SDf"}]
    return {"survey": rows, "choices": choices}


# one survey object: generate, add an element that needs itext, generate again - the second XForm is closed as well
API_FORMS = {
    "mono": {"survey": [{"type": "text", "name": "a", "label": "A"}, {"type": "begin group", "name": "g", "label": "G"}, {"type": "text", "name": "b", "label": "B"}, {"type": "end group"}]},
    "tr": {"survey": [{"type": "text", "name": "a", "label::en": "A", "label::fr": "Af"}, {"type": "begin group", "name": "g", "label::en": "G", "label::fr": "Gf"},
                      {"type": "select_one c", "name": "b", "label::en": "B", "label::fr": "Bf"}, {"type": "end group"}],
           "choices": [{"list_name": "c", "name": "x", "label::en": "X", "label::fr": "Xf"}]},
}
API_MUTS = {
    "translated-question": {"type": "text", "name": "nq", "label": {"en": "N", "fr": "Nf"}},
    "translated-hint-media": {"type": "text", "name": "nq", "label": "N", "hint": {"en": "H"}, "media": {"image": {"fr": "n.png"}}},
    "translated-message": {"type": "integer", "name": "nq", "label": "N", "bind": {"constraint": ". > 0", "jr:constraintMsg": {"en": "M", "fr": "Mf"}}},
    "message-with-reference": {"type": "integer", "name": "nq", "label": "N", "bind": {"required": "yes", "jr:requiredMsg": "R ${a}"}},
    "guidance": {"type": "text", "name": "nq", "label": "N", "guidance_hint": "GH"},
}


def check_api(case):
    import copy

    from pyxform.builder import create_survey_element_from_dict
    from pyxform.xls2xform import convert

    a = case["api"]
    try:
        sv = convert(copy.deepcopy(API_FORMS[a["form"]]))._survey
        if a["first"] != "none":
            sv.to_xml(validate=False, pretty_print=a["first"] == "pretty")
        target = sv if a["where"] == "top" else next(c for c in sv.children if c.name == "g")
        target.add_child(create_survey_element_from_dict(copy.deepcopy(API_MUTS[a["mut"]])))
        x = sv.to_xml(validate=False, pretty_print=False)
    except Exception as e:  # noqa: BLE001 - the object API may refuse an edit: no verdict about closure
        return {"outcome": "api-refused", "nt": False, "viol": [], "tr": 3, "why": f"{type(e).__name__}: {e}"[:120]}
    obs = O.Obs(x)
    pr, nlang, nrefs = invariant_problems(obs, x, None)
    pr = [(f"{sig}:api:{a['mut']}", det) for sig, det in pr]
    return {"outcome": "ok", "nt": a["first"] != "none" and not pr, "viol": pr, "tr": 4}


def contexts(case):
    import contextlib

    st = contextlib.ExitStack()
    if case.get("langs") == "case":
        st.enter_context(grid.langs(CASE_LANGS))
    if case.get("names") == "dup":
        # the question inside the group has the same name as the top-level question (legal: different sections)
        st.enter_context(grid.rows(grid.ROWS, inner=grid.ROWS[0][0]))
    elif case.get("names") is not None:
        st.enter_context(grid.rows(KEYWORD_ROWS[case["names"]]))
    return st


def expand(block, tier):
    if block[0] == "corpus":
        from xmc import corpus

        for e in corpus.load()[block[1]:block[1] + 100]:
            for dl in (None, "arg"):
                yield {"corpus": e["id"], "wb": e["wb"], "cells": [], "dl": dl}
        return
    if block[0] == "napp":
        # noAppErrorString: a bind message that becomes itext only when translated; with and without a reference
        core = grid.cells(True)
        for ls in [s for r in (1, 2, 3) for s in itertools.combinations(["", "en", "fr"], r)]:
            for ref in (False, True):
                for extra in [None, *core]:
                    for dl in DEFLANGS[:2]:
                        yield {"cells": [list(extra)] if extra else [], "dl": dl, "ref": ref, "napp": list(ls), "rev": bool(len(ls) % 2)}
        return
    if block[0] == "api":
        for form in API_FORMS:
            for first in ("compact", "pretty", "none"):
                for mut in API_MUTS:
                    for where in ("top", "nested"):
                        yield {"api": {"form": form, "first": first, "mut": mut, "where": where}, "cells": [], "dl": None, "ref": False}
        return
    if block[0] == "free-row":
        yield from gen_free_rows(block[1], tier)
        return
    if block[0] == "free-lists":
        yield from gen_free_lists(block[1])
        return
    if block[0] == "osm":
        # an OSM question whose tags carry (un)translated labels, alone and next to a translated question
        for qlab in (["label"], ["label::en", "label::fr"]):
            for tlab in (["label"], ["label::en"], ["label::en", "label::fr"]):
                for extra in (False, True):
                    yield {"osm": {"q": qlab, "t": tlab, "extra": extra}, "cells": [], "dl": None, "ref": False}
        return
    if block[0] == "names":
        _, k, first = block
        cs = grid.cells(True)
        n = 0
        for rest in itertools.combinations(cs[first + 1:], k - 1):
            for dl in DEFLANGS[:2]:
                n += 1
                yield {"cells": [list(c) for c in (cs[first], *rest)], "dl": dl, "ref": False, "rev": bool(n % 2), "names": n % len(KEYWORD_ROWS)}
                if dl is None:
                    yield {"cells": [list(c) for c in (cs[first], *rest)], "dl": dl, "ref": False, "rev": bool(n % 2), "names": "dup"}
        return
    if block[0] == "search":
        _, k, first = block
        cs = grid.cells(True)
        n = 0
        for rest in itertools.combinations(cs[first + 1:], k - 1):
            for dl in DEFLANGS[:2]:
                n += 1
                yield {"cells": [list(c) for c in (cs[first], *rest)], "dl": dl, "ref": False, "rev": bool(n % 2), "search": True}
        return
    if block[0] == "nolabel":
        _, k, first = block
        cs = grid.cells(True)
        combos = [()] if k == 0 else ((cs[first], *rest) for rest in itertools.combinations(cs[first + 1:], k - 1))
        n = 0
        for combo in combos:
            for who in ((0,), (1,), (0, 1)):
                if any(c[0] == "C" and c[1] in who and c[2] == "label" for c in combo):
                    continue
                for dl in DEFLANGS[:2]:
                    n += 1
                    yield {"cells": [list(c) for c in combo] + [["C", r, "NOLABEL", ""] for r in who], "dl": dl, "ref": False, "rev": bool(n % 2)}
        return
    if block[0] == "case":
        _, k, first = block
        with grid.langs(CASE_LANGS):
            cs = grid.cells(True)
        n = 0
        for rest in itertools.combinations(cs[first + 1:], k - 1):
            for dl in (None, "en", "EN"):
                n += 1
                yield {"cells": [list(c) for c in (cs[first], *rest)], "dl": dl, "ref": False, "langs": "case", "rev": bool(n % 2)}
        return
    is_core, k, first = block
    cs = grid.cells(is_core)
    if k == 0:
        combos = [()]
    else:
        combos = ((cs[first], *rest) for rest in itertools.combinations(cs[first + 1:], k - 1))
    nrev = 0
    for combo in combos:
        for dl in DEFLANGS:
            for ref in ((False, True) if k <= 2 else (False,)):
                # column order: both left-to-right orders for small subsets, alternating above
                nrev += 1
                for rev in ((False, True) if k <= 2 else (bool(nrev % 2),)):
                    yield {"cells": [list(c) for c in combo], "dl": dl, "ref": ref, "rev": rev}


def required_outcomes(tier):
    return {"ok"}


def invariant_problems(obs, xform, dl):
    pr = []
    trs = obs.itext
    langs = [lang for lang, _, _ in trs]
    if len(langs) != len(set(langs)):
        pr.append(("language-twice", str(langs)))
    idsets = []
    for lang, d, texts in trs:
        ids = [tid for tid, _ in texts]
        if len(ids) != len(set(ids)):
            pr.append(("text-id-twice", f"{lang}: {sorted(i for i in ids if ids.count(i) > 1)[:3]}"))
        idsets.append((lang, set(ids)))
    if idsets:
        base = idsets[0][1]
        for lang, s in idsets[1:]:
            if s != base:
                pr.append(("translations-differ-in-id-set", f"{idsets[0][0]} vs {lang}: {sorted(base ^ s)[:4]}"))
    allids = set().union(*[s for _, s in idsets]) if idsets else set()
    every = set.intersection(*[s for _, s in idsets]) if idsets else set()
    refs = set()
    for el in obs.root.iter():
        for k, v in el.attrib.items():
            tid = O.itext_id(v)
            if tid is not None and tid != "itextId":
                refs.add(tid)
        if O.local(el.tag) == "itextId" and el.text:
            refs.add(el.text)
    for tid in sorted(refs):
        if tid not in every:
            where = "nowhere" if tid not in allids else "not in every translation"
            pr.append((f"dangling-itext-reference:{where}:{tid.split(':')[-1] if ':' in tid else 'choice'}", tid))
    defaults = [lang for lang, d, _ in trs if d is not None]
    want = dl or "default"
    if want in langs:
        if defaults != [want]:
            pr.append(("default-flag", f"default_language={want} flagged={defaults}"))
    elif defaults:
        pr.append(("default-flag-on-other-language", f"default_language={want} flagged={defaults}"))
    return pr, len(langs), len(refs)


def build_case(case, **kw):
    """workbook of a grid case (shared with C08): language alphabet, column order, optional noAppErrorString cells"""
    with contexts(case):
        wb, ckw = grid.build([tuple(c) for c in case["cells"]], case["dl"], ref=case["ref"], rev=case.get("rev", False), search=bool(case.get("search")), **kw)
    for l in case.get("napp", ()):
        wb["survey"][0]["noAppErrorString" + (f"::{l}" if l else "")] = f"q.napp.{l or '0'}" + (" ${inner}" if case["ref"] else "")
    return wb, ckw


def build_osm(o):
    q = {"type": "osm o", "name": "q", **{h: f"Q {h}" for h in o["q"]}}
    tags = [{"list_name": "o", "name": "building", **{h: f"B {h}" for h in o["t"]}}, {"list_name": "o", "name": "kind", **{h: f"K {h}" for h in o["t"][:1]}}]
    rows = [q]
    if o["extra"]:
        rows.append({"type": "text", "name": "t", "label::en": "T", "label::fr": "Tf"})
    return {"survey": rows, "osm": tags}, {}


def check_corpus(case):
    """a realistic workbook of the frozen corpus, with its own default language and with the first language it names
    passed as the default_language argument: the itext closure invariant on the accepted output"""
    from xmc import corpus

    wb = case["wb"]
    kw = {}
    dl = corpus.setting(wb, "default_language")
    if case["dl"] == "arg":
        langs = sorted({k.split("::", 1)[1].strip() for sh in ("survey", "choices") for r in wb.get(sh) or () for k in r if "::" in k
                        and k.split("::", 1)[0].strip().lower() in ("label", "hint", "constraint_message", "required_message", "guidance_hint")})
        if not langs or dl:
            return {"outcome": "corpus-no-language", "nt": False, "viol": [], "tr": 1}
        dl = langs[0]
        kw = {"default_language": dl}
    out = run_convert(wb, **kw)
    ntr = len(wb["survey"]) + len(wb.get("choices") or ())
    if out.kind != "ok":
        return {"outcome": f"corpus-{out.kind}", "nt": False, "viol": [], "tr": ntr}
    obs = O.Obs(out.xform)
    pr, nlang, nrefs = invariant_problems(obs, out.xform, dl)
    pr = [(f"{sig}:corpus", det) for sig, det in pr]
    return {"outcome": "ok", "nt": (nlang >= 2 or nrefs >= 1) and not pr, "viol": pr[:4], "tr": ntr}


def check_one(case):
    if case.get("corpus"):
        return check_corpus(case)
    if case.get("api"):
        return check_api(case)
    if case.get("free"):
        wb, kw = build_free(case), {}
    else:
        wb, kw = build_osm(case["osm"]) if case.get("osm") else build_case(case)
    out = run_convert(wb, **kw)
    ntr = len(wb["survey"]) + len(wb.get("choices", ())) + len(case["cells"])
    if out.kind == "crash":
        return {"outcome": "crash", "nt": False, "viol": [], "tr": ntr}
    if out.kind == "reject":
        # (free rows: a visible question without any label is rightly refused)
        return {"outcome": "reject", "nt": False, "viol": [], "tr": ntr, "unexp": not case.get("free"), "why": out.msg[:160]}
    obs = O.Obs(out.xform)
    pr, nlang, nrefs = invariant_problems(obs, out.xform, case["dl"])
    if case.get("osm"):
        pr = [(f"{sig}:osm-tag" if "/q/" in str(det) else sig, det) for sig, det in pr]
    return {"outcome": "ok", "nt": (nlang >= 2 or nrefs >= 1) and not pr, "viol": pr, "tr": ntr}

# as-built additions of the seventh wave (reported with the bound in the evidence)
BOUND = {k: v + "; seventh wave: " + 'the frozen corpus with its own default language and with its first language as default_language argument; free rows with one cell holding nothing but a blank' for k, v in BOUND.items()}
