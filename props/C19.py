"""C19 - entity declarations follow the documented create/update decision table."""

import itertools

from xmc import observe as O
from xmc.impl import run_convert
from xmc.pathmodel import Path, align
from xmc.spaces import GenSpace, flatten, forests_upto, rows_from_forest
from props.C03 import forest_from_json, forest_to_json, repeat_ancestors

ID = "C19"
LEVEL = "model_checking"
TECHNIQUE = "explicit-state exhaustive exploration: all 16 presence combinations x expression alphabet x dataset/property names x every save_to placement in every bounded layout, executed on the implementation and compared with a reference decision table"
CLAIM = ("All 16 presence/absence combinations of (entity_id, create_if, update_if, label), with every expression of the alphabet, "
         "every dataset/property name of the alphabet and every placement of up to two save_to cells over every layout in the bound, "
         "are converted by the real code and the outcome (reject, or exact entity attributes/binds/setvalue/namespace) is compared "
         "with a reference decision table written from the statement.")
RULE = (
    "case = (presence combination, expression kind, dataset name, entities-sheet shape) | (layout, save_to placement subset, "
    "save_to names, combination); non-trivial = every case (each is a distinct cell of the decision table or a distinct "
    "placement); distinct by canonical case hash"
)
ASSUMPTIONS = [
    "the decision table is the one in the statement / class docstring; a label is required exactly when no entity_id is given",
    "expressions from a 7-element alphabet (incl. references to a repeat and a group); layouts L(5,3) / L(6,3)",
]
BOUND = {
    "quick": "save_to on loop / audit rows and on questions whose type contains the words group / repeat; second entities rows without a list name (4 shapes) and 5 omit_instanceID / instance_name / audit settings for all 16 combinations; 16 combinations x 7 expressions (+ absent cells as empty strings) x 7 dataset names x 3 sheet shapes; L(5,3) x save_to subsets <=2 x 4 combinations; 7 save_to names x 5 placements",
    "thorough": "same table; L(6,3) x save_to subsets <=2 x 6 combinations",
}

EXPRS = ["'lit'", "${q}", "${qg}", "concat(${q}, 'x')", "${q} = ${qg}", "count(${rp}) > 0", "concat(${g}, ${q})"]
DATASETS = [("trees", True), ("__t", False), ("a.b", False), ("1t", False), ("t t", False), (None, False), ("_ok-1", True)]
SAVETO = [("p", True), ("name", False), ("Label", False), ("__p", False), ("1p", False), ("p q", False), ("P_2", True), ("girth.cm", True), ("a-b", True)]
COLS = ["entity_id", "create_if", "update_if", "label"]


def table_valid(eid, cif, uif, lab):
    if uif and not eid:
        return False
    if eid and cif and not uif:
        return False
    if not eid and not lab:
        return False
    return True


UNKNOWN_COLS = ["name", "type", "parameters", "parent", "extra_data", "what", "repeat", "bind", "choices", "children", "save_to", "relevant", "Label2", "entity_idx"]


def gen_table(tier):
    for bits in itertools.product((0, 1), repeat=4):
        for ei, expr in enumerate(EXPRS):
            for ds, _ in DATASETS:
                for shape in ("one", "two", "extra"):
                    if shape != "one" and (ds != "trees" or ei > 1):
                        continue
                    yield {"k": "table", "bits": list(bits), "expr": ei, "ds": ds, "shape": shape}
                # absent cells given as empty strings (dict input from a table with blanks): the same decision
                if ds == "trees" and ei <= 1:
                    yield {"k": "table", "bits": list(bits), "expr": ei, "ds": ds, "shape": "one", "blanks": True}
        # a second row that is not a full declaration (no list name; before or after the real one): still two rows, still refused
        for shape in ("two-second-nolist", "two-first-nolist", "two-second-only-create_if", "two-first-only-entity_id"):
            yield {"k": "table", "bits": list(bits), "expr": 0, "ds": "trees", "shape": shape}
        # settings that change what else the meta block holds: the entity declaration is there regardless
        for st in ("omit", "omit+name", "name", "omit+audit", "name+audit"):
            for ei in (0, 1):
                yield {"k": "table", "bits": list(bits), "expr": ei, "ds": "trees", "shape": "one", "set": st}
        # unknown entities columns, including names that happen to be fields of pyxform's element classes
        for col in UNKNOWN_COLS:
            yield {"k": "table", "bits": list(bits), "expr": 0, "ds": "trees", "shape": "extra", "col": col}


def gen_saveto_names(tier):
    for nm, _ in SAVETO:
        for place in ("top", "group", "repeat", "on-group", "no-sheet", "on-loop", "on-audit", "on-audit-no-sheet", "select-groups", "select-repeats", "file-groups", "select-other", "multi-other"):
            yield {"k": "names", "st": nm, "place": place}
    # the header of the save_to column in its other accepted spellings, with and without an entities sheet
    for hdr in ("Save_To", "save to", "bind::entities:saveto", "SAVE_TO"):
        for place in ("top", "no-sheet"):
            yield {"k": "names", "st": "p", "place": place, "hdr": hdr}


def gen_placement(tier):
    N = 5 if tier == "quick" else 6
    combos = [(0, 0, 0, 1), (1, 0, 0, 0), (1, 1, 1, 1), (0, 1, 0, 1)]
    if tier != "quick":
        combos += [(1, 0, 1, 1), (1, 1, 0, 1)]
    for forest in forests_upto(N, 3):
        n = len(flatten(forest, "abcdefg"))
        for r in (0, 1, 2):
            for sub in itertools.combinations(range(n), r):
                for bits in combos:
                    yield {"k": "place", "f": forest_to_json(forest), "sub": list(sub), "bits": list(bits)}


EXTRA_TYPES = ["trigger", "string", "int", "photo", "location", "select one c", "q string", "add select one prompt using c", "begin group", "begin repeat"]
TYPE_NAMES = ["q", "entity", "label", "trees", "dataset"]  # names that also occur in the generated entity / meta block


def gen_types(tier):
    """save_to on one row of every question type (type catalogue + legacy spellings), the row named like generated nodes, the
    entity's label referring to it or not: accepted exactly when the same form without save_to and entities sheet is"""
    from xmc.ref import catalogue as cat

    for label in [*cat.TYPE_ROWS, *EXTRA_TYPES]:
        for nm in TYPE_NAMES:
            for ref in (False, True):
                for ctx in ("top", "group"):
                    yield {"k": "types", "t": label, "name": nm, "ref": ref, "ctx": ctx}


SPACE = GenSpace({"types": gen_types, "table": gen_table, "names": gen_saveto_names, "place": gen_placement}, chunk=300)
blocks = SPACE.blocks
expand = SPACE.expand


def required_outcomes(tier):
    return {"ok", "reject-expected"}


def entity_row(bits, expr, ds):
    row = {}
    if ds is not None:
        row["dataset"] = ds
    for b, col in zip(bits, COLS):
        if b:
            row[col] = expr
    return row


def build(case):
    base = [{"type": "text", "name": "q", "label": "Q"},
            {"type": "begin group", "name": "g", "label": "G"}, {"type": "text", "name": "qg", "label": "QG"}, {"type": "end group"}]
    if case["k"] == "table" and case["expr"] >= 5:
        base += [{"type": "begin repeat", "name": "rp", "label": "RP"}, {"type": "text", "name": "qr", "label": "QR"}, {"type": "end repeat"}]
    if case["k"] == "table":
        row = entity_row(case["bits"], EXPRS[case["expr"]], case["ds"])
        if case.get("blanks"):
            for b_, col_ in zip(case["bits"], COLS):
                if not b_:
                    row[col_] = ""
        ent = [row]
        if case["shape"] == "two":
            ent = [row, dict(row, dataset="other")]
        if case["shape"] == "extra":
            ent = [dict(row, **{case.get("col", "foo"): "bar"})]
        extra_row = {"two-second-nolist": {"label": "'m'", "create_if": "1 = 1"}, "two-first-nolist": {"label": "'m'"},
                     "two-second-only-create_if": {"create_if": "1 = 1"}, "two-first-only-entity_id": {"entity_id": "${q}", "update_if": "1 = 1"}}.get(case["shape"])
        if extra_row:
            ent = [row, extra_row] if "second" in case["shape"] else [extra_row, row]
        rows = [dict(r) for r in base]
        rows[0]["save_to"] = "prop"
        wb = {"survey": rows, "entities": ent}
        st = case.get("set") or ""
        if st:
            wb["settings"] = [{}]
            if "omit" in st:
                wb["settings"][0]["omit_instanceID"] = "yes"
            if "name" in st:
                wb["settings"][0]["instance_name"] = "concat(${q}, '-')"
            if "audit" in st:
                rows.append({"type": "audit", "name": "audit"})
        return wb, None
    if case["k"] == "names":
        rows = [dict(r) for r in base]
        place = case["place"]
        if place in ("top", "no-sheet"):
            rows[0]["save_to"] = case["st"]
        elif place == "group":
            rows[2]["save_to"] = case["st"]
        elif place == "on-group":
            rows[1]["save_to"] = case["st"]
        elif place in ("on-loop", "in-loop"):
            lp = [{"type": "begin loop over c", "name": "lp", "label": "LP"}, {"type": "text", "name": "lq", "label": "LQ"}, {"type": "end loop"}]
            lp[0 if place == "on-loop" else 1]["save_to"] = case["st"]
            rows += lp
        elif place.startswith("on-audit"):
            rows.append({"type": "audit", "name": "audit", "save_to": case["st"]})
        elif place in ("select-other", "multi-other"):
            # the generated <name>_other question is no survey row: it saves nothing
            rows.append({"type": ("select_one" if place == "select-other" else "select_multiple") + " c or_other", "name": "sg", "label": "SG", "save_to": case["st"], "required": "yes"})
        elif place in ("select-groups", "select-repeats", "file-groups"):
            # question types that merely contain the words group / repeat
            ty = {"select-groups": "select_one groups", "select-repeats": "select_multiple repeats", "file-groups": "select_one_from_file grouped.csv"}[place]
            rows.append({"type": ty, "name": "sg", "label": "SG", "save_to": case["st"]})
        else:
            rows += [{"type": "begin repeat", "name": "r", "label": "R"}, {"type": "text", "name": "qr", "label": "QR", "save_to": case["st"]}, {"type": "end repeat"}]
        if case.get("hdr"):
            rows = [{(case["hdr"] if k_ == "save_to" else k_): v_ for k_, v_ in r.items()} for r in rows]
        wb = {"survey": rows, "choices": [{"list_name": ln, "name": "x", "label": "X"} for ln in ("c", "groups", "repeats")]}
        if not place.endswith("no-sheet"):
            wb["entities"] = [{"dataset": "trees", "label": "'l'"}]
        return wb, None
    forest = forest_from_json(case["f"])
    names = ["a", "b", "c", "d", "e", "f"]
    nodes = flatten(forest, names)
    sub = set(case["sub"])

    def qrow(i, nm):
        r = {"type": "text", "name": nm, "label": nm}
        if i in sub:
            r["save_to"] = f"p{i}"
        return r

    def crow(i, kind, nm):
        r = {"type": "begin group" if kind == "g" else "begin repeat", "name": nm, "label": nm}
        if i in sub:
            r["save_to"] = f"p{i}"
        return r

    rows = [{"type": "text", "name": "q", "label": "Q"}, {"type": "text", "name": "qg", "label": "QG"}] + rows_from_forest(forest, names, qrow, crow)
    return {"survey": rows, "entities": [entity_row(case["bits"], "${q}", "trees")]}, nodes


def expect_reject(case, nodes):
    if case["k"] == "table":
        eid, cif, uif, lab = case["bits"]
        ds_ok = dict(DATASETS)[case["ds"]]
        return not (table_valid(eid, cif, uif, lab) and ds_ok and case["shape"] == "one")
    if case["k"] == "names":
        ok = dict(SAVETO)[case["st"]]
        return not (ok and case["place"] in ("top", "group", "select-groups", "select-repeats", "file-groups", "on-audit", "select-other", "multi-other"))
    for i in case["sub"]:
        if nodes[i]["kind"] != "q" or repeat_ancestors(nodes, i):
            return True
    return not table_valid(*case["bits"])


ENT = "{%s}" % O.ENT


def check_entity(obs, xform, bits, expr, ds, viol):
    eid, cif, uif, lab = bits
    ep = "/data/meta/entity"
    el = obs.paths.get(ep)
    if el is None:
        viol.append(("entity-node-missing", ""))
        return
    want = {"dataset": ds, "id": ""}
    if eid:
        want.update({"update": "1", "baseVersion": "", "trunkVersion": "", "branchId": ""})
    if cif or not eid:
        want["create"] = "1"
    if dict(el.attrib) != want:
        viol.append((f"entity-attributes:{''.join(map(str, bits))}", f"got {dict(el.attrib)} want {want}"))
    kids = [O.local(c.tag) for c in el]
    if kids != (["label"] if lab else []):
        viol.append((f"entity-children:{''.join(map(str, bits))}", str(kids)))
    bm = obs.bind_map()

    def subst_ok(src, got):
        subs = align(src, got or "")
        if subs is None:
            return False
        targets = [t for t in ("q", "qg") for _ in range(0)]
        import re

        names = re.findall(r"\$\{(.*?)\}", src)
        for nm, raw in zip(names, subs):
            p = Path(raw)
            want_path = {"q": ["data", "q"], "rp": ["data", "rp"], "g": ["data", "g"]}.get(nm) or (["data", "g", "qg"] if obs.resolves("/data/g/qg") else ["data", "qg"])
            if not p.ok or p.resolve(["data", "meta", "entity"]) != want_path:
                return False
        return True

    def want_bind(dest, calc_src, present):
        bs = bm.get(ep + dest, [])
        tag = f"{dest}:{''.join(map(str, bits))}"
        if not present:
            if bs:
                viol.append((f"entity-bind-unexpected:{tag}", str([dict(b.attrib) for b in bs])))
            return
        if len(bs) != 1:
            viol.append((f"entity-bind-missing:{tag}", f"{len(bs)} binds for {ep + dest}"))
            return
        b = bs[0]
        if b.get("type") != "string" or b.get("readonly") != "true()":
            viol.append((f"entity-bind-type:{tag}", str(dict(b.attrib))))
        if calc_src is None:
            if b.get("calculate") is not None:
                viol.append((f"entity-bind-calculate-unexpected:{tag}", b.get("calculate")))
        elif not subst_ok(calc_src, b.get("calculate")):
            viol.append((f"entity-bind-calculate:{tag}", f"{b.get('calculate')!r} for source {calc_src!r}"))

    want_bind("/@id", expr if eid else None, True)
    want_bind("/@create", expr, bool(cif))
    want_bind("/@update", expr, bool(uif))
    ent = f"instance('{ds}')/root/item[name={expr}]"
    want_bind("/@baseVersion", ent + "/__version", bool(eid))
    want_bind("/@trunkVersion", ent + "/__trunkVersion", bool(eid))
    want_bind("/@branchId", ent + "/__branchId", bool(eid))
    want_bind("/label", expr, bool(lab))
    svs = [e for e in obs.model if O.local(e.tag) == "setvalue" and e.get("ref") == ep + "/@id"]
    creating = bool(cif or not eid)
    if creating:
        if len(svs) != 1 or svs[0].get("value") != "uuid()" or svs[0].get("event") != "odk-instance-first-load":
            viol.append((f"entity-id-setvalue:{''.join(map(str, bits))}", str([dict(s.attrib) for s in svs])))
    elif svs:
        viol.append((f"entity-id-setvalue-unexpected:{''.join(map(str, bits))}", str([dict(s.attrib) for s in svs])))


def check_types(case):
    import copy

    from xmc.ref import catalogue as cat

    label, nm = case["t"], case["name"]
    if label in cat.TYPE_ROWS:
        wb = cat.form_for(label, case["ctx"])
    else:
        row = {"type": label, "name": "q", "label": "Q"}
        rows = [row, {"type": "text", "name": "i", "label": "I"}, {"type": label.replace("begin", "end")}] if label.startswith("begin") else [row]
        if case["ctx"] == "group":
            rows = [{"type": "begin group", "name": "w", "label": "W"}, *rows, {"type": "end group"}]
        wb = {"survey": rows, "choices": [dict(c) for c in cat.CHOICES]}
    rows = wb["survey"]
    row = next(r for r in rows if r.get("name") in ("q", "audit"))
    container = row["type"].startswith("begin")
    if row["name"] == "q":
        row["name"] = nm
    else:
        nm = row["name"]
    plain = run_convert(copy.deepcopy(wb))
    ntr = len(rows) + 1
    if plain.kind != "ok":
        return {"outcome": "types-base-refused", "nt": False, "viol": [], "tr": ntr}
    path = next((p_ for p_ in O.Obs(plain.xform).paths if p_.rsplit("/", 1)[-1] == nm and "/meta/entity" not in p_), None)
    has_bind = path is not None and any(b.get("nodeset") == path for b in O.Obs(plain.xform).model.findall(O.X + "bind"))
    wb["entities"] = [{"dataset": "trees", "label": ("concat('x', ${%s})" % nm) if case["ref"] else "'l'"}]
    if case["ref"] and (path is None or container):
        return {"outcome": "types-no-node-to-refer-to", "nt": False, "viol": [], "tr": ntr}
    base_ent = run_convert(copy.deepcopy(wb))
    row["save_to"] = "p"
    out = run_convert(wb)
    if out.kind == "crash":
        return {"outcome": "crash", "nt": True, "viol": [(f"internal-exception:{out.exc}:{out.where}", f"{out.msg} case={case}")], "tr": ntr}
    viol = []
    if container:
        if out.kind != "reject":
            viol.append(("invalid-entity-form-accepted:types:save_to-on-a-section", str(case)))
        return {"outcome": "reject-expected", "nt": not viol, "viol": viol, "tr": ntr}
    if base_ent.kind != "ok":
        viol.append((f"valid-entity-form-rejected:types:entity-next-to-{'a-row-named-' + nm if nm != 'q' else 'type-' + label}", f"{base_ent.msg[:200]} case={case}"))
        return {"outcome": "reject", "nt": True, "viol": viol, "tr": ntr}
    if out.kind == "reject":
        if path is not None:
            viol.append(("valid-entity-form-rejected:types:save_to", f"{out.msg[:200]} case={case}"))
        return {"outcome": "reject", "nt": True, "viol": viol, "tr": ntr}
    obs = O.Obs(out.xform)
    if case["ref"]:
        lb = [b.get("calculate") for b in obs.model.findall(O.X + "bind") if b.get("nodeset") == "/data/meta/entity/label"]
        if len(lb) != 1 or "".join(lb[0].split()) != "concat('x',%s)" % path:
            viol.append(("entity-label-reference:types", f"{lb!r} for concat('x', ${{{nm}}}) with {nm} at {path}"))
    else:
        check_entity(obs, out.xform, [0, 0, 0, 1], "'l'", "trees", viol)
    if path is not None and not any(b.get("nodeset") == path for b in obs.model.findall(O.X + "bind")):
        viol.append(("saveto-lost:types", f"no bind for {path}"))
    for b in obs.model.findall(O.X + "bind"):
        got = b.get(ENT + "saveto")
        want = "p" if b.get("nodeset") == path else None
        if got != want and path is not None:
            viol.append(("saveto-on-wrong-bind", f"{b.get('nodeset')}: got {got!r} want {want!r}"))
    return {"outcome": "ok", "nt": not viol, "viol": viol[:3], "tr": ntr}


def check_one(case):
    if case["k"] == "types":
        return check_types(case)
    wb, nodes = build(case)
    out = run_convert(wb)
    ntr = len(wb["survey"]) + len(wb.get("entities", ()))
    er = expect_reject(case, nodes)
    tag = case["k"]
    if out.kind == "crash":
        return {"outcome": "crash", "nt": True, "viol": [(f"internal-exception:{out.exc}:{out.where}", f"{out.msg} case={case}")], "tr": ntr}
    if out.kind == "reject":
        if er:
            return {"outcome": "reject-expected", "nt": True, "viol": [], "tr": ntr}
        return {"outcome": "reject", "nt": True, "viol": [(f"valid-entity-form-rejected:{tag}", f"{out.msg[:200]} case={case}")], "tr": ntr}
    viol = []
    if er:
        viol.append((f"invalid-entity-form-accepted:{tag}:{case.get('place') or case.get('shape') or ''}", str(case)))
        return {"outcome": "ok", "nt": True, "viol": viol, "tr": ntr}
    obs = O.Obs(out.xform)
    has_entity = "entities" in wb
    nm = O.nsmap_of(out.xform)
    ver = obs.model.get(ENT + "entities-version")
    if has_entity:
        if nm.get("entities") != O.ENT:
            viol.append(("entities-namespace-missing", str(nm)))
        if not ver:
            viol.append(("entities-version-missing", ""))
    else:
        if "entities" in nm or ver:
            viol.append(("entities-namespace-without-entity", ""))
    if case["k"] == "table":
        check_entity(obs, out.xform, case["bits"], EXPRS[case["expr"]], case["ds"], viol)
        saves = {"/data/q": "prop"}
        st = case.get("set")
        if st is not None:
            meta = obs.paths.get("/data/meta")
            kids = [O.local(c.tag) for c in meta] if meta is not None else None
            want_kids = (["audit"] if "audit" in st else []) + ([] if "omit" in st else ["instanceID"]) + (["instanceName"] if "name" in st else []) + ["entity"]
            if kids is None or sorted(kids) != sorted(want_kids):
                viol.append((f"meta-children:{st}", f"got {kids} want {want_kids}"))
    elif case["k"] == "names":
        check_entity(obs, out.xform, [0, 0, 0, 1], "'l'", "trees", viol)
        saves = {{"top": "/data/q", "group": "/data/g/qg", "on-audit": "/data/meta/audit"}.get(case["place"], "/data/sg"): case["st"]}
    else:
        check_entity(obs, out.xform, case["bits"], "${q}", "trees", viol)
        saves = {"/" + "/".join(nodes[i]["path"]): f"p{i}" for i in case["sub"]}
    for b in obs.model.findall(O.X + "bind"):
        got = b.get(ENT + "saveto")
        want = saves.get(b.get("nodeset"))
        if got != want:
            viol.append(("saveto-on-wrong-bind", f"{b.get('nodeset')}: got {got!r} want {want!r}"))
    return {"outcome": "ok", "nt": True, "viol": viol, "tr": ntr}

# as-built additions of the seventh wave (reported with the bound in the evidence)
BOUND = {k: v + "; seventh wave: " + 'save_to on one row of every question type (61 type rows) x 5 names of generated nodes x entity label referring to the row or not x top / group' for k, v in BOUND.items()}
