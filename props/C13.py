"""C13 - documented spellings and layout noise are interchangeable (exhaustive metamorphic
relation: every base form x every catalogued transformation x every site)."""

import copy
import re

from xmc import observe as O
from xmc.impl import run_convert
from xmc.ref import catalogue as cat
from props.C12 import base_forms, with_headers
from xmc import render

ID = "C13"
LEVEL = "model_checking"
TECHNIQUE = "exhaustive metamorphic exploration: every base workbook x every catalogued equivalent-spelling / layout-noise transformation x every site where it applies (and ordered pairs of transformations), both sides executed on the implementation and compared on canonical XForm and warnings"
CLAIM = ("Every (base form, transformation, site) triple of the catalogue - header case/spacing, column aliases, delimiter styles, "
         "question-type aliases, truth values, smart quotes, extra whitespace, column rotations, sheet order, a blank row at every gap, "
         "added _notes/unrelated sheets, unknown plain columns - is converted by the real code; canonical XForm and warnings must be "
         "identical except for row numbers shifted by exactly the number of rows inserted above.")
RULE = (
    "case = (base form, transformation, site) | (base form, ordered pair of transformations at their first sites); non-trivial = "
    "the transformation changed the workbook and both sides were accepted and compared; distinct by canonical case hash"
)
ASSUMPTIONS = [
    "the alias / spelling catalogue is frozen under /verif (XLSForm documentation, reconciled once with the pinned tree)",
    "each transformation carries a precondition so it is applied only where the documentation makes it an equivalence",
]
BOUND = {
    "quick": "3 feature-rich forms + catalogue forms (x2 decorations) + L(4,3): every transformation at every site",
    "thorough": "same plus every ordered pair of transformations (first sites) on the rich forms and catalogue",
}
# as-built additions to the bound (kept next to BOUND so that the evidence reports them)
BOUND = {k: v + "; plus: " + 'truth-value spellings for the settings flags omit_instanceID / allow_choice_duplicates / clean_text_values and for the disabled column; 5 rich forms' for k, v in BOUND.items()}

RICH = [
    {"survey": [
        {"type": "text", "name": "a", "label::en": "A", "label::fr": "Af", "hint::en": "H", "required": "yes", "relevant": "${n} = 'x'",
         "constraint": ". != 1", "constraint_message::en": "CM", "read_only": "no"},
        {"type": "integer", "name": "n", "label::en": "N", "label::fr": "Nf", "media::image::en": "n.png", "default": "3", "appearance": "numbers"},
        {"type": "begin group", "name": "g", "label::en": "G", "label::fr": "Gf", "appearance": "field-list"},
        {"type": "select_one c", "name": "s", "label::en": "S", "label::fr": "Sf", "choice_filter": "x = ${n}"},
        {"type": "select_multiple c or_other", "name": "m", "label::en": "M", "label::fr": "Mf"},
        {"type": "calculate", "name": "k", "calculation": "${n} + 1"},
        {"type": "end group"},
        {"type": "begin repeat", "name": "r", "label::en": "R", "label::fr": "Rf", "repeat_count": "${n}"},
        {"type": "image", "name": "im", "label::en": "I"},
        {"type": "note", "label::en": "note 'q'", "label::fr": 'l"x'},
        {"type": "end repeat"}],
     "choices": [{"list_name": "c", "name": "c1", "label::en": "C1", "label::fr": "C1f", "x": "1", "media::image::en": "c.png"},
                 {"list_name": "c", "name": "c2", "label::en": "C2", "x": "2"}],
     "settings": [{"form_title": "T", "form_id": "F", "version": "1", "default_language": "en"}]},
    {"survey": [
        {"type": "begin group", "name": "tl", "label": "TL", "appearance": "table-list"},
        {"type": "select_one c", "name": "t1", "label": "T1"},
        {"type": "select_one c", "name": "t2", "label": "T2", "required": "true()", "required_message": "RM"},
        {"type": "end group"},
        {"type": "begin group", "name": "ug"},
        {"type": "geopoint", "name": "gp", "label": "GP", "read_only": "yes"},
        {"type": "dateTime", "name": "dt", "label": "DT"},
        {"type": "end group"},
        {"type": "imei", "name": "dev"},
        {"type": "note", "label": "unnamed note"},
        {"type": "text", "name": "dis", "label": "Dis", "disabled": "no"}],
     "choices": [{"list_name": "c", "name": "x", "label": "X"}, {"list_name": "c", "name": "y"}]},
    {"survey": [
        {"type": "text", "name": "st", "label": "State"},
        {"type": "select_one_external e", "name": "city", "label": "City", "choice_filter": "state=${st}"},
        {"type": "select_one_external e", "name": "city2", "label": "City2"},
        {"type": "range", "name": "rg", "label": "R", "parameters": "start=1 end=5 step=1"},
        {"type": "text", "name": "ent", "label": "E", "save_to": "p1"}],
     "external_choices": [{"list_name": "e", "name": "a", "label": "A", "state": "s1"}, {"list_name": "e", "name": "b", "label": "B", "state": "s2"}],
     "entities": [{"list_name": "trees", "label": "${ent}"}],
     "settings": [{"form_id": "ext", "namespaces": 'zz="http://zz.example"'}]},
    # yes/no flags: settings that switch behaviour, rows switched off with the (deprecated) disabled column
    {"survey": [
        {"type": "text", "name": "a", "label": "A  a", "disabled": "no"},
        {"type": "text", "name": "b", "label": "B", "disabled": "yes"},
        {"type": "select_one c", "name": "s", "label": "S", "required": "yes"},
        {"type": "begin group", "name": "g", "label": "G", "disabled": "yes"},
        {"type": "end group", "disabled": "yes"},
        {"type": "text", "name": "z", "label": "Z", "read_only": "true()"}],
     "choices": [{"list_name": "c", "name": "x", "label": "X"}, {"list_name": "c", "name": "x", "label": "X2"}],
     "settings": [{"omit_instanceID": "yes", "allow_choice_duplicates": "yes", "clean_text_values": "no"}]},
    {"survey": [{"type": "text", "name": "a", "label": "A"}],
     "settings": [{"omit_instanceID": "no", "allow_choice_duplicates": "no", "clean_text_values": "yes", "form_title": "T"}]},
    # language names with a space in them
    {"survey": [
        {"type": "text", "name": "q", "label::English (en)": "Q", "label::French (fr)": "Qf", "hint::English (en)": "H", "hint::French (fr)": "Hf"},
        {"type": "select_one c", "name": "s", "label::English (en)": "S", "label::French (fr)": "Sf", "media::image::English (en)": "s.png"}],
     "choices": [{"list_name": "c", "name": "x", "label::English (en)": "X", "label::French (fr)": "Xf"}, {"list_name": "c", "name": "y", "label::English (en)": "Y", "label::French (fr)": "Yf"}]},
    # selects from files with parameters (spellings of the type must not matter to which parameters are allowed)
    {"survey": [
        {"type": "text", "name": "q", "label": "Q"},
        {"type": "select_one_from_file f.csv", "name": "s1", "label": "S1", "parameters": "value=code label=title"},
        {"type": "select_multiple_from_file g.xml", "name": "s2", "label": "S2", "parameters": "randomize=true seed=4", "choice_filter": "a = ${q}"},
        {"type": "select_one_from_file h.geojson", "name": "s3", "label": "S3", "parameters": "label=nm"},
        # truth values on container rows (a read-only group, a repeat that is not required)
        {"type": "begin group", "name": "lk", "label": "LK", "read_only": "yes", "required": "no"},
        {"type": "text", "name": "li", "label": "LI", "required": "yes"},
        {"type": "end group"},
        {"type": "begin repeat", "name": "vr", "label": "VR", "read_only": "no", "required": "true()"},
        {"type": "text", "name": "vi", "label": "VI"},
        {"type": "end repeat"}]},
    # truth values on a row of every kind of question (whatever a type does with a required / read-only row must not depend on the spelling)
    {"survey": [
        {"type": "note", "name": "tn", "label": "TN", "required": "yes"},
        {"type": "note", "name": "tn2", "label": "TN2", "required": "true()", "read_only": "no"},
        {"type": "integer", "name": "ti", "label": "TI", "required": "yes", "read_only": "yes"},
        {"type": "select_multiple c", "name": "tm", "label": "TM", "required": "no"},
        {"type": "calculate", "name": "tc", "calculation": "1 + 1", "required": "yes", "read_only": "true()"},
        {"type": "image", "name": "tp", "label": "TP", "required": "yes", "parameters": "max-pixels=100"},
        {"type": "geopoint", "name": "tg", "label": "TG", "required": "true()"},
        {"type": "acknowledge", "name": "ta", "label": "TA", "required": "yes"},
        {"type": "date", "name": "td", "label": "TD", "read_only": "yes"},
        {"type": "range", "name": "tr", "label": "TR", "required": "no", "read_only": "no"},
        {"type": "hidden", "name": "th", "required": "yes"},
        {"type": "rank c", "name": "tk", "label": "TK", "required": "yes"},
        {"type": "barcode", "name": "tb", "label": "TB", "required": "no", "read_only": "yes"},
        {"type": "file", "name": "tf", "label": "TF", "required": "yes"}],
     "choices": [{"list_name": "c", "name": "x", "label": "X"}, {"list_name": "c", "name": "y", "label": "Y"}]},
]

# ---------------------------------------------------------------- transformations ----
# a transformation yields (site label, transformed workbook, {"survey": shift fn, "choices": shift fn})
HDR_ALIAS = {
    "survey": {"relevant": ["relevance"], "calculation": ["calculate"], "label": ["caption"], "read_only": ["readonly"],
               "constraint_message": ["constraining_message"], "required_message": ["requiredmsg"],
               "repeat_count": ["count", "jr:count"], "media::image": ["image"], "media::audio": ["audio"],
               "name": ["tag", "value"], "type": ["command"], "appearance": ["body::appearance"],
               "save_to": ["bind::entities:saveto"]},
    "choices": {"list_name": ["list name"], "name": ["value"], "label": ["caption"], "media::image": ["image"]},
    "external_choices": {"list_name": ["list name"]},
    "settings": {"form_title": ["title", "set_form_title"], "form_id": ["id_string", "set_form_id"]},
    "entities": {"list_name": ["dataset"]},
}
TYPE_ALIAS = {
    "select_one": ["select one", "select1", "select one from"], "select_multiple": ["select all that apply", "select all that apply from"],
    "select_one_from_file": ["select one from file"], "select_multiple_from_file": ["select multiple from file"],
    "integer": ["int"], "begin group": ["begin_group", "begin  group"], "end group": ["end_group"],
    "begin repeat": ["begin_repeat"], "end repeat": ["end_repeat"], "image": ["photo"], "imei": ["deviceid"],
}
OTHER_ALIAS = ["or other", "or specify other"]
TRUTH = {"yes": ["true()", "TRUE", "Yes", "true", "True", "YES"], "no": ["false()", "FALSE", "No", "false"],
         "true()": ["yes", "TRUE"]}
SMART = {"'": "’", '"': "”"}
IDENT = lambda n: n  # noqa: E731


KNOWN_SHEETS = {"survey", "choices", "settings", "external_choices", "entities", "osm"}


def sheets(wb):
    return [s for s in wb if not s.endswith("_header") and s not in ("sheet_names", "fallback_form_name")]


def rename_col(wb, sheet, old, new):
    w = copy.deepcopy(wb)
    w[sheet] = [{(new if k == old else k): v for k, v in r.items()} for r in w[sheet]]
    return w


def all_headers(wb, sheet):
    return render.headers_of(wb, sheet)


def split_header(h):
    parts = h.split("::")
    return parts


def t_header_case(wb):
    for s in sheets(wb):
        for h in all_headers(wb, s):
            parts = h.split("::")
            if parts[0] in ("bind", "instance", "body", "attribute") or (len(parts) > 1 and parts[0] == "media" and False):
                continue  # custom attribute names are case sensitive data, not spelling
            if h in HDR_PLAIN_UNKNOWN or parts[0] == "disabled":
                continue  # data columns, and the deprecated 'disabled' column, are not documented spellings
            base = parts[0]
            for style in ("upper", "title"):
                nb = base.upper() if style == "upper" else base.title()
                if parts[0] == "media" and len(parts) > 1:
                    new = "::".join([nb, parts[1].upper() if style == "upper" else parts[1], *parts[2:]])
                    if parts[1] != parts[1].lower() or style == "upper":
                        new = "::".join([nb, *parts[1:]])
                else:
                    new = "::".join([nb, *parts[1:]])
                if new != h:
                    yield f"case:{style}:{s}:{h}", rename_col(wb, s, h, new), {}


HDR_PLAIN_UNKNOWN = {"x", "state", "my_notes", "zzz"}  # extra (data) columns: their spelling is data


def t_header_spacing(wb):
    for s in sheets(wb):
        for h in all_headers(wb, s):
            parts = h.split("::")
            if "_" in parts[0] and parts[0] not in HDR_PLAIN_UNKNOWN and parts[0] not in ("bind", "instance", "body"):
                new = "::".join([parts[0].replace("_", " "), *parts[1:]])
                yield f"space:{s}:{h}", rename_col(wb, s, h, new), {}
                new2 = "::".join([parts[0].replace("_", "  "), *parts[1:]])
                yield f"space2:{s}:{h}", rename_col(wb, s, h, new2), {}
            if any(" " in p_ for p_ in parts[1:]):
                # a run of spaces inside a later token (a language name) is one space
                new3 = "::".join([parts[0], *[p_.replace(" ", "  ") for p_ in parts[1:]]])
                yield f"space-in-token:{s}:{h}", rename_col(wb, s, h, new3), {}


def t_col_alias(wb):
    for s in sheets(wb):
        hs = all_headers(wb, s)
        for h in hs:
            for canon, alts in HDR_ALIAS.get(s, {}).items():
                if h == canon or h.startswith(canon + "::"):
                    for alt in alts:
                        new = alt + h[len(canon):]
                        if new in hs:
                            continue
                        yield f"alias:{s}:{h}->{new}", rename_col(wb, s, h, new), {}


def t_delimiter(wb):
    for s in sheets(wb):
        hs = all_headers(wb, s)
        if not any("::" in h for h in hs):
            continue
        if any(re.search(r"::\w+:\w", h) or h.split("::")[0] in ("bind", "instance", "body", "attribute") for h in hs):
            continue  # a namespaced token would be split by the single-colon style
        w = copy.deepcopy(wb)
        w[s] = [{k.replace("::", ":"): v for k, v in r.items()} for r in w[s]]
        yield f"delim-single:{s}", w, {}
    for s in sheets(wb):
        for h in all_headers(wb, s):
            if "::" in h:
                yield f"delim-spaced:{s}:{h}", rename_col(wb, s, h, h.replace("::", " :: ")), {}
                yield f"delim-spaced-left:{s}:{h}", rename_col(wb, s, h, h.replace("::", " ::")), {}


def t_type_alias(wb):
    for i, r in enumerate(wb["survey"]):
        ty = r.get("type", "")
        for canon, alts in TYPE_ALIAS.items():
            if ty == canon or ty.startswith(canon + " "):
                for alt in alts:
                    w = copy.deepcopy(wb)
                    w["survey"][i]["type"] = alt + ty[len(canon):]
                    yield f"type:{i}:{alt}", w, {}
        if ty.endswith(" or_other"):
            for alt in OTHER_ALIAS:
                w = copy.deepcopy(wb)
                w["survey"][i]["type"] = ty[: -len("or_other")] + alt
                yield f"type-other:{i}:{alt}", w, {}


def t_truth(wb):
    for i, r in enumerate(wb["survey"]):
        for col in ("required", "read_only", "disabled"):
            v = r.get(col)
            for alt in TRUTH.get(v, []):
                w = copy.deepcopy(wb)
                w["survey"][i][col] = alt
                yield f"truth:{i}:{col}:{alt}", w, {}
    # yes/no flags of the settings sheet
    for i, r in enumerate(wb.get("settings", [])):
        for col in ("omit_instanceID", "allow_choice_duplicates", "clean_text_values"):
            v = r.get(col)
            for alt in TRUTH.get(v, []):
                w = copy.deepcopy(wb)
                w["settings"][i][col] = alt
                yield f"truth:settings:{col}:{alt}", w, {}


def t_quotes(wb):
    for s in ("survey", "choices", "settings"):
        for i, r in enumerate(wb.get(s, [])):
            for k, v in r.items():
                if isinstance(v, str) and ("'" in v or '"' in v) and k not in ("namespaces",):
                    w = copy.deepcopy(wb)
                    nv = v
                    for a, b in SMART.items():
                        nv = nv.replace(a, b)
                    w[s][i][k] = nv
                    yield f"smart-quotes:{s}:{i}:{k}", w, {}
                    # opening variants
                    nv2 = v.replace("'", "‘").replace('"', "“")
                    w2 = copy.deepcopy(wb)
                    w2[s][i][k] = nv2
                    yield f"smart-quotes-open:{s}:{i}:{k}", w2, {}


def t_spaces(wb):
    # precondition: whitespace cleaning is documented to be switched off by clean_text_values=no
    if any(str(r.get("clean_text_values", "yes")).lower() in ("no", "false", "false()") for r in wb.get("settings", [])):
        return
    for i, r in enumerate(wb["survey"]):
        for k, v in r.items():
            if not isinstance(v, str) or not v:
                continue
            w = copy.deepcopy(wb)
            w["survey"][i][k] = "  " + v + " "
            yield f"space-around:{i}:{k}", w, {}
            if " " in v and "'" not in v and '"' not in v:
                w2 = copy.deepcopy(wb)
                w2["survey"][i][k] = v.replace(" ", "   ")
                yield f"space-inside:{i}:{k}", w2, {}


def t_col_perm(wb):
    for s in sheets(wb):
        hs = all_headers(wb, s)
        n = len(hs)
        perms = [hs[k:] + hs[:k] for k in range(1, n)] + [hs[::-1]]
        for pi, p in enumerate(perms):
            w = copy.deepcopy(wb)
            w[s] = [{k: r[k] for k in p if k in r} for r in w[s]]
            w[s + "_header"] = [{k: None for k in p}]
            yield f"colperm:{s}:{pi}", w, {}


def t_sheet_perm(wb):
    ss = sheets(wb)
    for k in range(1, len(ss)):
        order = ss[k:] + ss[:k]
        yield f"sheetperm:{k}", {s: copy.deepcopy(wb[s]) for s in order}, {}
    if len(ss) > 1:
        yield "sheetperm:rev", {s: copy.deepcopy(wb[s]) for s in ss[::-1]}, {}


def t_blank_row(wb):
    for s in ("survey", "choices"):
        if s not in wb:
            continue
        for gap in range(len(wb[s]) + 1):
            w = copy.deepcopy(wb)
            w[s] = w[s][:gap] + [{}] + w[s][gap:]
            # original row number (header = 1): rows at index >= gap move down by one
            yield f"blank:{s}:{gap}", w, {s: (lambda n, g=gap: n - 1 if n - 2 > g else (None if n - 2 == g else n))}


def t_extra_sheet(wb):
    w = copy.deepcopy(wb)
    w["_notes"] = [{"a": "some", "b": "notes"}]
    w["sheet_names"] = [*sheets(wb), "_notes"]
    yield "sheet:_notes", w, {}
    w2 = copy.deepcopy(wb)
    w2["zzzunrelated"] = [{"a": "1"}]
    w2["sheet_names"] = [*sheets(wb), "zzzunrelated"]
    yield "sheet:unrelated", w2, {}
    # unrelated / underscore sheets are ignored whatever they hold: repeated headers, a header row only, nothing but a name cell
    for nm, tbl in (("_lookup", [["key", "value", "key"], ["a", "1", "b"]]), ("zzzscratch", [["only", "headers"]]),
                    ("_dups", [["type", "type", "name"], ["x", "y", "z"]]), ("zzzwide", [["a"], ["1", "2", "3"]])):
        w3 = copy.deepcopy(wb)
        w3[nm] = {"__table__": tbl}
        w3["sheet_names"] = [*sheets(wb), nm]
        yield f"sheet:odd:{nm}", w3, {}


def t_unknown_col(wb):
    for s in ("survey", "settings"):
        if s in wb and wb[s]:
            w = copy.deepcopy(wb)
            w[s] = [{**r, "my_notes": "n"} if r else r for r in w[s]]
            yield f"unknown-col:{s}", w, {}
            w2 = copy.deepcopy(wb)
            w2[s] = [{"my_notes": "n", **r} if r else r for r in w2[s]]
            yield f"unknown-col-first:{s}", w2, {}


TRANSFORMS = [t_header_case, t_header_spacing, t_col_alias, t_delimiter, t_type_alias, t_truth, t_quotes, t_spaces,
              t_col_perm, t_sheet_perm, t_blank_row, t_extra_sheet, t_unknown_col]


def all_bases(tier):
    out = [(f"rich:{i}", w) for i, w in enumerate(RICH)]
    out += [(n, w) for n, w in base_forms(tier) if "survey" in w]  # (C12's survey-less workbook has nothing to re-spell)
    return out


def blocks(tier):
    n = len(all_bases(tier))
    for bi in range(n):
        yield ("single", bi)
    if tier != "quick":
        for bi in range(n):
            yield ("pair", bi)


def expand(block, tier):
    kind, bi = block
    name, wb = all_bases(tier)[bi]
    if kind == "single":
        for ti, t in enumerate(TRANSFORMS):
            for site, w2, shifts in t(wb):
                yield {"base": name, "wb": wb, "t": [[ti, site]]}
    else:
        for ti, t in enumerate(TRANSFORMS):
            first = next(iter(t(wb)), None)
            if first is None:
                continue
            for tj, u in enumerate(TRANSFORMS):
                if tj == ti or (TRANSFORMS[ti] is t_col_perm and TRANSFORMS[tj] in (t_col_alias, t_header_case, t_header_spacing, t_delimiter)):
                    continue
                second = next(iter(u(first[1])), None)
                if second is None:
                    continue
                yield {"base": name, "wb": wb, "t": [[ti, first[0]], [tj, second[0]]]}


def required_outcomes(tier):
    return {"equivalent"}


# ---------------------------------------------------------------- oracle -------------
def apply_chain(wb, chain):
    cur = wb
    shifts = []
    for ti, site in chain:
        found = None
        for s2, w2, sh in TRANSFORMS[ti](cur):
            if s2 == site:
                found = (w2, sh)
                break
        if found is None:
            return None, None
        cur = found[0]
        shifts.append(found[1])
    # an explicit header row (written by the column permutation) must name every column the later
    # transformations renamed or added: rebuild it from the rows, keeping its order where it still applies
    for k in [k for k in cur if k.endswith("_header")]:
        sheet = k[: -len("_header")]
        keys = {}
        for r in cur.get(sheet, ()):
            for c in r:
                keys[c] = None
        old = [h for h in cur[k][0] if h in keys]
        if set(old) != set(keys):
            cur = dict(cur)
            cur[k] = [{h: None for h in [*old, *[c for c in keys if c not in old]]}]
    return cur, shifts


GEN_NAME = re.compile(r"(generated_table_list_label_|reserved_name_for_field_list_labels_|generated_note_name_)(\d+)")
ROW_TOK = re.compile(r"\[row : (\d+)\]")


def unshift(n, shifts, sheet):
    for sh in reversed(shifts):
        f = sh.get(sheet)
        if f:
            n = f(n)
            if n is None:
                return None
    return n


def canon_xform(xml, shifts):
    def fix(s):
        return GEN_NAME.sub(lambda m: m.group(1) + str(unshift(int(m.group(2)), shifts, "survey")), s) if s else s

    def rec(el):
        kids = [rec(k) for k in el]
        tag = fix(el.tag)
        if O.local(el.tag) in ("itext", "translation", "text"):
            kids = sorted(kids, key=repr)
        attrs = tuple(sorted((k, fix(v)) for k, v in el.attrib.items()))
        return (tag, attrs, fix(el.text or ""), fix(el.tail or "") if False else "", tuple(kids))

    return rec(O.parse(xml))


def canon_warnings(ws, shifts):
    out = []
    for w in ws:
        sheet = "choices" if "choices" in w.lower() or "choice " in w.lower() else "survey"
        w = re.sub(r"'type': '[^']*'", "'type': *", w)  # the echo of the type cell is not kind/subject/row
        # the languages named by the invalid-code warning are a set of subjects: their order follows column order
        m = re.match(r"(The following language declarations do not contain valid machine-readable codes: )(.*?)(\. Learn more.*)$", w, re.S)
        if m:
            w = m.group(1) + ", ".join(sorted(m.group(2).split(", "))) + m.group(3)
        out.append(ROW_TOK.sub(lambda m: f"[row : {unshift(int(m.group(1)), shifts, sheet)}]", w))
    return sorted(out)


def check_one(case):
    wb = case["wb"]
    w2, shifts = apply_chain(wb, [tuple(x) for x in case["t"]])
    if w2 is None:
        return {"outcome": "not-applicable", "nt": False, "viol": [], "tr": 1}
    a = run_convert(with_sheet_names(wb))
    ntr = 2 * sum(len(v) for k, v in wb.items() if isinstance(v, list))
    tname = "+".join(TRANSFORMS[ti].__name__[2:] + ":" + site.split(":")[0] for ti, site in case["t"])
    if any(s not in KNOWN_SHEETS for s in sheets(w2)):
        # unknown sheets only exist in files (the dict API has no place for them): go through the readers
        wfile = {k: v for k, v in w2.items() if k != "sheet_names"}
        tables = {}
        for sname in [k for k in wfile if not k.endswith("_header") and k != "fallback_form_name"]:
            v = wfile[sname]
            tables[sname] = [list(r) for r in v["__table__"]] if isinstance(v, dict) else [list(r) for r in render.table(wfile, sname)]
        res = None
        # (md / csv cannot hold a blank row: the readers drop it, so the row-shift model only applies to xlsx)
        has_blank = any(TRANSFORMS[ti] is t_blank_row for ti, _ in case["t"])
        for fmt in (("xlsx",) if has_blank else ("xlsx", "md", "csv")):
            if fmt == "xlsx":
                plain = {k: (v if not isinstance(v, dict) else []) for k, v in wfile.items()}
                src, kw = render.render(plain, "xlsx", tables)
            else:
                flat = [c for t in tables.values() for r in t for c in r if c is not None]
                if fmt == "md" and any((not isinstance(c, str)) or c != c.strip() or "\n" in c or "|" in c or "\\" in c or c == "" or "#" in c for c in flat):
                    continue
                src, kw = tables_to_text(tables, fmt)
            r1 = compare_sides(case, a, run_convert(src, **kw), shifts, f"{tname}:{fmt}" if fmt != "xlsx" else tname, ntr)
            if res is None or r1["viol"]:
                res = r1
            if r1["viol"]:
                break
        return res
    b = run_convert(with_sheet_names(w2))
    return compare_sides(case, a, b, shifts, tname, ntr)


def tables_to_text(tables, fmt):
    if fmt == "md":
        lines = []
        for sh, rows in tables.items():
            lines.append(f"| {sh} |")
            for row in rows:
                lines.append("| | " + " | ".join("" if v is None else str(v) for v in row) + " |")
        return "\n".join(lines) + "\n", {"file_type": ".md"}
    import csv
    import io

    f = io.StringIO(newline="")
    w = csv.writer(f, quoting=csv.QUOTE_ALL)
    for sh, rows in tables.items():
        w.writerow([sh])
        for row in rows:
            w.writerow(["", *["" if v is None else str(v) for v in row]])
    return f.getvalue(), {"file_type": ".csv"}


def compare_sides(case, a, b, shifts, tname, ntr):
    if a.kind != b.kind:
        return {"outcome": "different", "nt": False, "viol": [(f"outcome-changed:{tname}", f"{a.kind} -> {b.kind} {(b.msg or '')[:160]} sites={case['t']}")], "tr": ntr}
    if a.kind != "ok":
        return {"outcome": f"both-{a.kind}", "nt": False, "viol": [], "tr": ntr}
    viol = []
    try:
        ca, cb = canon_xform(a.xform, []), canon_xform(b.xform, shifts)
    except O.ParseFailure as e:
        return {"outcome": "unparseable", "nt": False, "viol": [(f"unparseable:{tname}", str(e))], "tr": ntr}
    if ca != cb:
        viol.append((f"xform-changed:{tname}", f"sites={case['t']} {first_diff(ca, cb)}"))
    wa, wbn = canon_warnings(a.warnings, []), canon_warnings(b.warnings, shifts)
    if wa != wbn:
        viol.append((f"warnings-changed:{tname}", f"sites={case['t']} {sorted(set(wa) ^ set(wbn))[:3]}"))
    if a.itemsets is not None or b.itemsets is not None:
        if norm_csv(a.itemsets) != norm_csv(b.itemsets) and not any(TRANSFORMS[ti] in (t_col_alias, t_header_case, t_header_spacing, t_col_perm, t_blank_row) for ti, _ in case["t"]):
            viol.append((f"itemsets-changed:{tname}", f"{a.itemsets!r} vs {b.itemsets!r}"))
    return {"outcome": "equivalent" if not viol else "different", "nt": not viol, "viol": viol, "tr": ntr}


def norm_csv(s):
    return s


def with_sheet_names(wb):
    out = with_headers({k: v for k, v in wb.items() if k not in ("sheet_names", "fallback_form_name") and not k.endswith("_header")})
    for k, v in wb.items():
        if k.endswith("_header"):
            out[k] = v
    out["sheet_names"] = wb.get("sheet_names") or [s for s in wb if not s.endswith("_header") and s not in ("sheet_names", "fallback_form_name")]
    return out


def first_diff(a, b, path=""):
    if a[0] != b[0]:
        return f"{path}: tag {O.local(a[0])} vs {O.local(b[0])}"
    p = path + "/" + O.local(a[0])
    if a[1] != b[1]:
        return f"{p}: attributes {a[1]} vs {b[1]}"
    if a[2] != b[2]:
        return f"{p}: text {a[2]!r} vs {b[2]!r}"
    if len(a[4]) != len(b[4]):
        return f"{p}: {len(a[4])} vs {len(b[4])} children"
    for x, y in zip(a[4], b[4]):
        d = first_diff(x, y, p)
        if d:
            return d
    return None

# as-built additions of the seventh wave (reported with the bound in the evidence)
BOUND = {k: v + "; seventh wave: " + 'a rich form with required / read-only rows of 14 question kinds' for k, v in BOUND.items()}
