"""C03 - ${name} references become XPaths that reach the named question's node.
Reference-model agreement over every referrer x target placement in L(N,3)."""

import re

from xmc import observe as O
from xmc.impl import run_convert
from xmc.pathmodel import Path, align, refs_in
from xmc.spaces import flatten, forests_upto

ID = "C03"
LEVEL = "model_checking"
TECHNIQUE = "explicit-state small-scope exploration: every referrer x target placement in every bounded layout executed on the implementation, emitted paths resolved on the observed instance by a reference path model"
CLAIM = ("For every forest of groups/repeats up to the stated size, every (referrer node, target question) pair, every "
         "reference-bearing cell kind and reference shape, the real converter is run and each substituted path is resolved "
         "on the parsed primary instance from the node the cell belongs to; relative/absolute/current()/last-saved rules and "
         "the error side are checked. Exhaustive within the bound; layouts beyond it are not covered.")
RULE = (
    "case = (forest in L(N,3), name assignment with <=1 colliding-name deviation, referrer node, target question, "
    "shape); all applicable cells of the referrer row are filled with marker expressions and checked from one "
    "conversion; non-trivial = accepted form in which at least one checked reference crosses a repeat boundary "
    "(target or referrer inside a repeat); distinct by canonical case hash"
)
ASSUMPTIONS = [
    "XPath evaluation is modelled only for the child/parent steps pyxform emits (JavaRosa itself is not run)",
    "setvalue/@value is evaluated in the context of its @ref node (XForms 1.1 s10.2, JavaRosa SetValueAction)",
    "layouts up to the stated node count and nesting depth 3; the 'randomly beyond' part of the quantifier is not done (sampling)",
]
BOUND = {
    "quick": "L(5,3) x all (referrer, target) pairs x 6 shapes with default names; one prefix-name deviation over all ordered node pairs for the plain shape; error-side catalogue",
    "thorough": "L(6,3) x all pairs x 6 shapes with default names; L(5,3) x {prefix, suffix, equal} one-name deviations over all ordered node pairs x {plain, two}; error-side catalogue",
}
# as-built additions to the bound (kept next to BOUND so that the evidence reports them)
BOUND = {k: v + "; plus: " + 'group and repeat targets (count(${section}) and the like) incl. sections enclosing the referrer; deep layouts: referrer and target on branches of depth 0..3 (quick) / 0..4 (thorough) below a shared repeat or group under 0..2 wrappers; equal-name deviations on L(4,3) in the quick tier; ambiguous names with 2-5 copies' for k, v in BOUND.items()}

NAMES = ["a", "b", "c", "d", "e", "f", "g", "h", "i", "j", "k", "l", "m", "n", "o", "p"]
CHOICES = [{"list_name": "c", "name": "x", "label": "X", "cf": "1"}, {"list_name": "c", "name": "y", "label": "Y", "cf": "2"}]
SHAPES = ["plain", "two", "lastsaved", "lastsaved-text", "lastsaved-seed", "indexed", "instpred", "trigger", "choicelabel"]


def forest_to_json(f):
    return [[t[0]] if t[0] == "q" else [t[0], forest_to_json(t[1])] for t in f]


def forest_from_json(j):
    return tuple(("q",) if t[0] == "q" else (t[0], forest_from_json(t[1])) for t in j)


def apply_dev(names, dev):
    names = list(names)
    if dev:
        kind, i, j = dev
        if kind == "prefix":
            names[i] = names[j] + "0"
        elif kind == "suffix":
            names[i] = "z" + names[j]
        elif kind == "equal":
            names[i] = names[j]
        elif kind == "unicode":
            names[i] = ["\u00e9" + names[i], names[i] + "\u540d\u524d", "pr\u00e9" + names[i] + "-x.y", "My" + names[i].upper() + "x"][j % 4]
    return names


# ---------------------------------------------------------------- space --------------
def _nest(kinds, leaf_children):
    """chain of containers (outermost first) around the given children tuple"""
    ch = tuple(leaf_children)
    for k in reversed(kinds):
        ch = ((k, ch),)
    return ch


def deep_cases(tier):
    """referrer and target on two branches of unequal depth (0..4 groups each, shared prefix) below a repeat that itself sits
    below 0..2 wrappers: the depth-4 part of the quantifier, beyond the node budget of L(N,3)"""
    maxd = 3 if tier == "quick" else 4
    wrappers = [(), ("g",), ("r",), ("g", "r"), ("r", "g")] if tier == "quick" else [(), ("g",), ("r",), ("g", "g"), ("g", "r"), ("r", "g"), ("r", "r")]
    for w in wrappers:
        for top in ("r", "g"):
            for a in range(0, maxd + 1):
                for b in range(0, maxd + 1):
                    for pfx in range(0, min(a, b) + 1):
                        for inner in ("g", "r"):
                            if inner == "r" and (a - pfx == 0 or tier == "quick" and (a + b) % 2):
                                continue
                            ka = (["g"] * (a - pfx))
                            if inner == "r" and ka:
                                ka[-1] = "r"  # the referrer's innermost container is itself a repeat
                            brA = _nest(ka, (("q",),))
                            brB = _nest(["g"] * (b - pfx), (("q",),))
                            body = _nest(["g"] * pfx, (*brA, *brB))
                            forest = _nest([*w, top], body) + (("q",),)
                            nodes = flatten(forest, NAMES)
                            qs = [nd["i"] for nd in nodes if nd["kind"] == "q"]
                            xa, xb = qs[0], qs[1]
                            for xi, ti in ((xa, xb), (xb, xa), (xa, qs[2]), (qs[2], xa)):
                                for shape in ("plain", "two"):
                                    yield {"f": forest_to_json(forest), "dev": None, "x": xi, "t": ti, "shape": shape}


def twin_cases(tier):
    """two (or three) referrers with the SAME name in different sections at different depths (legal: names need only be unique
    among siblings), all referring to the same target; every one must get the path that is right from its own node"""
    maxd = 2 if tier == "quick" else 3
    for top in ("r", "g"):
        for tdepth in range(0, 2):
            for a in range(0, maxd + 1):
                for b in range(0, maxd + 1):
                    if a == b:
                        continue
                    for third in (False, True):
                        yield {"twins": {"top": top, "tdepth": tdepth, "a": a, "b": b, "third": third}}


def build_twins(tw):
    rows = [{"type": f"begin {'repeat' if tw['top'] == 'r' else 'group'}", "name": "R", "label": "R"}]
    tpath = ["data", "R"]
    if tw["tdepth"]:
        rows.append({"type": "begin group", "name": "tg", "label": "TG"})
        tpath.append("tg")
    rows.append({"type": "integer", "name": "t", "label": "T"})
    tpath.append("t")
    if tw["tdepth"]:
        rows.append({"type": "end group"})
    refs = []

    def branch(tag, depth):
        path = ["data", "R"]
        for d in range(depth):
            nm = f"{tag}{d}"
            rows.append({"type": "begin group", "name": nm, "label": nm})
            path.append(nm)
        rows.append({"type": "text", "name": "k", "label": "L ${t} l", "relevant": "${t} = 1", "calculation": "${t} + 2", "hint": "H ${t}"})
        refs.append([*path, "k"])
        for d in range(depth):
            rows.append({"type": "end group"})

    branch("a", tw["a"])
    branch("b", tw["b"])
    if tw["third"]:
        branch("c", max(tw["a"], tw["b"]) + 1)
    rows.append({"type": f"end {'repeat' if tw['top'] == 'r' else 'group'}"})
    return {"survey": rows}, refs, tpath


def check_twins(case):
    tw = case["twins"]
    wb, refs, tpath = build_twins(tw)
    out = run_convert(wb)
    ntr = len(wb["survey"])
    if out.kind != "ok":
        return {"outcome": out.kind, "nt": False, "viol": [], "tr": ntr, "unexp": out.kind == "reject", "why": (out.msg or "")[:200]}
    obs = O.Obs(out.xform)
    bm = obs.bind_map()
    viol = []
    ctrls = {ref: el for el, tag, ref, anc in obs.body_controls() if tag == "input"}
    for rp in refs:
        px = "/" + "/".join(rp)
        b = bm.get(px, [None])[0]
        found = []
        if b is not None:
            for attr, src in (("relevant", "${t} = 1"), ("calculate", "${t} + 2")):
                subs = align(src, b.get(attr) or "")
                found.append((attr, subs[0] if subs else None))
        c = ctrls.get(px)
        if c is not None:
            for child in ("label", "hint"):
                e = c.find(O.X + child)
                outs = outputs_of(e) if e is not None else []
                found.append((child, outs[0] if outs else None))
        if len(found) != 4:
            viol.append(("twins:cell-missing", f"{px}: {found}"))
        for cell, raw in found:
            p = Path(raw or "")
            if raw is None or not p.ok or p.resolve(rp) != tpath:
                viol.append((f"wrong-path:same-named-referrers:{cell}", f"{px}: {cell} emitted {raw!r}, resolves to {p.resolve(rp) if p.ok else None}, expected {tpath}"))
            elif tw["top"] == "r" and p.absolute:
                viol.append((f"absolute-where-relative-required:same-named-referrers:{cell}", f"{px}: {raw!r}"))
    return {"outcome": "ok", "nt": not viol, "viol": viol[:4], "tr": ntr}


def blocks(tier):
    n_deep = sum(1 for _ in deep_cases(tier))
    for i in range(0, n_deep, 150):
        yield ("deep", i, min(n_deep, i + 150))
    N = 5 if tier == "quick" else 6
    fs = list(forests_upto(N, 3))
    for fi in range(len(fs)):
        yield ("default", fi)
    ND = 5
    nfd = sum(1 for _ in forests_upto(ND, 3))
    kinds = ["prefix"] if tier == "quick" else ["prefix", "suffix", "equal"]
    for fi in range(nfd):
        for k in kinds:
            yield ("dev", fi, k)
    if tier == "quick":
        # equal names (e.g. a repeat named like a question elsewhere: legal while nobody references the name) on L(4,3)
        for fi in range(sum(1 for _ in forests_upto(4, 3))):
            yield ("dev", fi, "equal")
    # names with non-ASCII letters, dots and dashes (any XML name is a legal question name)
    for fi in range(sum(1 for _ in forests_upto(4 if tier == "quick" else 5, 3))):
        yield ("dev", fi, "unicode")
    nt = sum(1 for _ in twin_cases(tier))
    for i in range(0, nt, 150):
        yield ("twins", i, min(nt, i + 150))
    yield ("errors",)


def _forest(fi):
    for i, f in enumerate(forests_upto(6, 3)):
        if i == fi:
            return f
    raise IndexError(fi)


def expand(block, tier):
    if block[0] == "errors":
        yield from error_cases()
        return
    if block[0] == "twins":
        import itertools

        yield from itertools.islice(twin_cases(tier), block[1], block[2])
        return
    if block[0] == "deep":
        import itertools

        yield from itertools.islice(deep_cases(tier), block[1], block[2])
        return
    forest = _forest(block[1])
    fj = forest_to_json(forest)
    nodes = flatten(forest, NAMES)
    n = len(nodes)
    qs = [nd["i"] for nd in nodes if nd["kind"] == "q"]
    reps = [nd["i"] for nd in nodes if nd["kind"] == "r"]
    if block[0] == "default":
        conts = [nd["i"] for nd in nodes if nd["kind"] != "q"]
        for xi in qs:
            for ti in conts:
                yield {"f": fj, "dev": None, "x": xi, "t": ti, "shape": "cont"}
        for xi in range(n):
            for ti in qs:
                for shape in SHAPES:
                    if nodes[xi]["kind"] != "q" and shape not in ("plain", "two", "lastsaved", "lastsaved-text"):
                        continue
                    if shape == "trigger" and xi == ti:
                        continue
                    if shape == "indexed":
                        if next_q(nodes, ti) == ti:
                            continue  # same name in a value and an index position is meaningless
                        for ri in reps:
                            yield {"f": fj, "dev": None, "x": xi, "t": ti, "shape": shape, "r": ri}
                    else:
                        yield {"f": fj, "dev": None, "x": xi, "t": ti, "shape": shape}
    else:
        kind = block[2]
        shapes = ["plain"] if tier == "quick" else ["plain", "two"]
        for i in range(n):
            for j in range(n):
                if (i == j) != (kind == "unicode"):
                    continue
                for xi in range(n):
                    for ti in qs:
                        for shape in shapes:
                            yield {"f": fj, "dev": [kind, i, j], "x": xi, "t": ti, "shape": shape}


def error_cases():
    cells = ["relevant", "constraint", "required", "read_only", "calculation", "default", "choice_filter",
             "label", "hint", "constraint_message", "required_message", "repeat_count", "trigger", "instance::ia"]
    bads = [("unknown", "${zz}", "zz"), ("malformed-open", "${a", None), ("malformed-space", "${a b}", None),
            ("dup", "${d}", "d"), ("malformed-nested", "${${a}}", None), ("malformed-empty", "${}", None)]
    for cell in cells:
        for kind, tok, nm in bads:
            for ctx in ("top", "repeat"):
                yield {"err": kind, "cell": cell, "tok": tok, "name": nm, "ctx": ctx}
                if kind == "dup":
                    # the ambiguous name occurs 3, 4 and 5 times (in as many groups), not only twice
                    for copies in (3, 4, 5):
                        yield {"err": kind, "cell": cell, "tok": tok, "name": nm, "ctx": ctx, "copies": copies}


def required_outcomes(tier):
    return {"ok", "reject-expected"}


# ---------------------------------------------------------------- build --------------
def next_q(nodes, ti):
    qs = [nd["i"] for nd in nodes if nd["kind"] == "q"]
    return qs[(qs.index(ti) + 1) % len(qs)]


def build(case):
    forest = forest_from_json(case["f"])
    names = apply_dev(NAMES, case.get("dev"))
    nodes = flatten(forest, names)
    xi, ti, shape = case["x"], case["t"], case["shape"]
    t = nodes[ti]["name"]
    ui = next_q(nodes, ti) if nodes[ti]["kind"] == "q" else next(nd["i"] for nd in nodes if nd["kind"] == "q")
    u = nodes[ui]["name"]
    X = nodes[xi]
    cells = {}  # cell -> source text
    if X["kind"] == "q":
        if shape == "plain":
            cells = {"label": f"L ${{{t}}} l", "hint": f"H ${{{t}}} h", "guidance_hint": f"G ${{{t}}} g",
                     "relevant": f"${{{t}}} = 101", "constraint": f"${{{t}}} = 102",
                     "constraint_message": f"CM ${{{t}}} cm", "required": f"${{{t}}} = 103",
                     "required_message": f"RM ${{{t}}} rm", "read_only": f"${{{t}}} = 104",
                     "calculation": f"${{{t}}} + 105", "default": f"${{{t}}}", "choice_filter": f"cf = ${{{t}}}",
                     "parameters": f"randomize=true seed=${{{t}}}", "instance::ia": f"${{{t}}}",
                     "bind::bz": f"${{{t}}} = 106", "body::bb": f"${{{t}}}"}
        elif shape == "two":
            cells = {"label": f"L ${{{t}}} m ${{{u}}} l", "relevant": f"${{{t}}} = 101 and ${{{u}}} = 201",
                     "calculation": f"if(${{{t}}} > 1, ${{{u}}}, ${{{t}}})", "hint": f"${{{u}}} then ${{{t}}}",
                     "choice_filter": f"cf = ${{{t}}} or cf = ${{{u}}}", "parameters": f"randomize=true seed=${{{t}}}+${{{u}}}*7"}
        elif shape == "lastsaved":
            cells = {"calculation": f"${{last-saved#{t}}} + 105",
                     "default": f"${{last-saved#{t}}}", "relevant": f"${{last-saved#{t}}} = 101 and ${{{t}}} = 1",
                     "choice_filter": f"cf = ${{last-saved#{t}}}", "parameters": f"randomize=true seed=${{last-saved#{t}}}"}
        elif shape == "lastsaved-seed":
            cells = {"parameters": f"randomize=true seed=${{last-saved#{t}}}"}
        elif shape == "lastsaved-text":
            cells = {"label": f"L ${{last-saved#{t}}} l", "hint": f"H ${{last-saved#{t}}} h"}
        elif shape == "indexed":
            R = nodes[case["r"]]["name"]
            reps = [nd["i"] for nd in nodes if nd["kind"] == "r"]
            R2 = nodes[reps[(reps.index(case["r"]) + 1) % len(reps)]]["name"]
            R3 = nodes[reps[(reps.index(case["r"]) + 2) % len(reps)]]["name"]
            cells = {"calculation": f"indexed-repeat(${{{t}}}, ${{{R}}}, ${{{u}}})",
                     "relevant": f"indexed-repeat(${{{t}}}, ${{{R}}}, 1, ${{{R2}}}, ${{{u}}}) = 1",
                     "constraint": f"indexed-repeat(${{{t}}}, ${{{R}}}, 1) = ${{{u}}}",
                     # two calls in one expression, then a plain reference after them
                     "required": f"indexed-repeat(${{{t}}}, ${{{R}}}, 1) + indexed-repeat(${{{u}}}, ${{{R}}}, 2) > ${{{t}}}",
                     "read_only": f"${{{u}}} = 1 or indexed-repeat(${{{t}}}, ${{{R}}}, ${{{u}}}) = indexed-repeat(${{{t}}}, ${{{R}}}, 3) or ${{{u}}} = 2",
                     # plain references to the same names in later columns of the same row
                     "bind::bz": f"${{{t}}} = 106 and ${{{u}}} = 107", "instance::ia": f"${{{t}}}",
                     # the longest documented form: three repeat levels (arguments 1, 3 and 5 name sections)
                     "bind::by": f"indexed-repeat(${{{t}}}, ${{{R}}}, 1, ${{{R2}}}, 2, ${{{R3}}}, ${{{u}}} - 1) = ${{{u}}}"}
        elif shape == "instpred":
            cells = {"calculation": f"instance('c')/root/item[name = ${{{t}}}]/label",
                     "label": f"L instance('c')/root/item[name = ${{{t}}}]/label l",
                     # text after a complete lookup that merely looks like the start of another one stays text
                     "hint": f"H instance('c')/root/item[name = ${{{t}}}]/label then instance( and instance('c') end",
                     "relevant": f"instance('c')/root/item[name = ${{{t}}} and cf = ${{{u}}}]/label = ${{{u}}}",
                     "choice_filter": f"name = ${{{t}}}",
                     # plain references to the same names in later columns of the same row (no current(), relative inside a repeat)
                     "required": f"${{{t}}} = 103 or ${{{u}}} = 104", "bind::bz": f"${{{t}}} = 106"}
        elif shape == "trigger":
            cells = {"trigger": f"${{{t}}}", "calculation": f"${{{u}}} + 105"}
        elif shape == "choicelabel":
            # references in the translated labels of the select's choices; every row of the form is translated as well
            cells = {"clabel::en": f"C ${{{t}}} en", "clabel::fr": f"C ${{{u}}} then ${{{t}}} fr"}
        elif shape == "cont":
            # the target is a group or repeat (count(${section}) and the like), possibly one that encloses the referrer
            cells = {"calculation": f"count(${{{t}}}) + 105", "relevant": f"count(${{{t}}}) > ${{{u}}}", "label": f"L ${{{t}}} l", "constraint": f". < count(${{{t}}})"}
    else:
        if shape == "plain":
            cells = {"label": f"L ${{{t}}} l", "relevant": f"${{{t}}} = 101", "instance::ia": f"${{{t}}}"}
            if X["kind"] == "r":
                cells["repeat_count"] = f"${{{t}}}"
        elif shape == "two":
            cells = {"label": f"L ${{{t}}} m ${{{u}}} l", "relevant": f"${{{t}}} = 101 and ${{{u}}} = 201"}
        elif shape == "lastsaved":
            cells = {"relevant": f"${{last-saved#{t}}} = 101"}
        elif shape == "lastsaved-text":
            cells = {"label": f"L ${{last-saved#{t}}} l"}
    rows = []

    def rec(f):
        for tnode in f:
            i = len([r for r in rows if "name" in r])
            nm = names[i]
            if tnode[0] == "q":
                if i == xi:
                    typ = "calculate" if shape == "trigger" else "select_one c"
                    r = {"type": typ, "name": nm, **{k_: v_ for k_, v_ in cells.items() if not k_.startswith("clabel")}}
                    if typ != "calculate" and "label" not in r:
                        r["label"] = "X"
                else:
                    r = {"type": "text", "name": nm, "label": nm.upper()}
                rows.append(r)
            else:
                kind = "group" if tnode[0] == "g" else "repeat"
                r = {"type": f"begin {kind}", "name": nm, "label": nm.upper()}
                if i == xi:
                    r.update(cells)
                rows.append(r)
                rec(tnode[1])
                rows.append({"type": f"end {kind}"})

    rec(forest)
    wb = {"survey": rows, "choices": [dict(c) for c in CHOICES]}
    if shape == "choicelabel":
        for r in rows:
            if "label" in r:
                lb = r.pop("label")
                r.update({"label::en": lb + " en", "label::fr": lb + " fr"})
        wb["choices"] = [{**{k_: v_ for k_, v_ in c.items() if k_ != "label"}, "label::en": cells["clabel::en"] + f" {c['name']}", "label::fr": cells["clabel::fr"] + f" {c['name']}"} for c in CHOICES]
    return wb, nodes, cells


def build_error(case):
    cell, tok = case["cell"], case["tok"]
    q = {"type": "select_one c", "name": "q", "label": "Q"}
    rows = [{"type": "text", "name": "a", "label": "A"},
            {"type": "begin group", "name": "g1", "label": "G1"}, {"type": "text", "name": "d", "label": "D"}, {"type": "end group"},
            {"type": "begin group", "name": "g2", "label": "G2"}, {"type": "text", "name": "d", "label": "D"}, {"type": "end group"}]
    for k in range(3, case.get("copies", 2) + 1):
        rows += [{"type": "begin group", "name": f"g{k}", "label": f"G{k}"}, {"type": "text", "name": "d", "label": "D"}, {"type": "end group"}]
    body = [q]
    if cell == "repeat_count":
        body = [{"type": "begin repeat", "name": "rr", "label": "RR", "repeat_count": tok}, q, {"type": "end repeat"}]
    elif cell == "trigger":
        q.update({"type": "calculate", "calculation": "1", "trigger": tok})
        q.pop("label")
    elif cell in ("constraint_message",):
        q.update({"constraint": ". != 'k'", cell: f"M {tok}"})
    elif cell in ("label", "hint", "required_message"):
        q[cell] = f"T {tok} t"
    else:
        q[cell] = f"{tok} = 1" if cell not in ("default", "instance::ia") else tok
    if case["ctx"] == "repeat" and cell != "repeat_count":
        body = [{"type": "begin repeat", "name": "rr", "label": "RR"}, *body, {"type": "end repeat"}]
    return {"survey": rows + body, "choices": [dict(c) for c in CHOICES]}


# ---------------------------------------------------------------- oracle -------------
def repeat_ancestors(nodes, i):
    """indices of proper repeat ancestors of node i, innermost first"""
    out = []
    p = nodes[i]["parent"]
    while p is not None:
        if nodes[p]["kind"] == "r":
            out.append(p)
        p = nodes[p]["parent"]
    return out


def is_proper_ancestor(nodes, a, i):
    p = nodes[i]["parent"]
    while p is not None:
        if p == a:
            return True
        p = nodes[p]["parent"]
    return False


def outputs_of(el):
    return [c.get("value") or "" for c in el if O.local(c.tag) == "output"]


def text_with_placeholders(el):
    """render mixed content back to source form with @@ for each output"""
    s = el.text or ""
    vals = []
    for c in el:
        if O.local(c.tag) == "output":
            s += "${@}"
            vals.append(c.get("value") or "")
        s += c.tail or ""
    return s, vals


def check_one(case):
    if "err" in case:
        return check_error(case)
    if "twins" in case:
        return check_twins(case)
    wb, nodes, cells = build(case)
    out = run_convert(wb)
    ntr = len(wb["survey"]) + len(wb["choices"])
    X, T = nodes[case["x"]], nodes[case["t"]]
    dev = case.get("dev")
    names = [nd["name"] for nd in nodes]
    referenced = {nm for src in cells.values() for _, nm in refs_in(src)}
    dup_ref = sorted(nm for nm in referenced if names.count(nm) > 1)
    if out.kind == "crash":
        return {"outcome": "crash", "nt": False, "viol": [], "tr": ntr}  # C17's business
    if out.kind == "reject":
        if dup_ref:
            ok = any(nm in out.msg for nm in dup_ref)
            viol = [] if ok else [("ambiguous-reference-error-does-not-name-it", out.msg[:200])]
            return {"outcome": "reject-expected", "nt": False, "viol": viol, "tr": ntr}
        if dev and dev[0] == "equal":
            return {"outcome": "reject-dup-layout", "nt": False, "viol": [], "tr": ntr}
        return {"outcome": "reject", "nt": False, "viol": [], "tr": ntr, "unexp": True, "why": out.msg[:200]}
    viol = []
    if dup_ref:
        viol.append(("ambiguous-reference-accepted", f"{dup_ref} occurs twice but ${{...}} to it was accepted"))
        return {"outcome": "ok", "nt": False, "viol": viol, "tr": ntr}
    try:
        obs = O.Obs(out.xform)
    except O.ParseFailure as e:
        return {"outcome": "ok", "nt": False, "viol": [("unparseable", str(e))], "tr": ntr}
    if "${" in out.xform:
        viol.append(("token-survives", out.xform[max(0, out.xform.index("${") - 60): out.xform.index("${") + 40]))
    byname = {}
    for nd in nodes:
        byname.setdefault(nd["name"], []).append(nd)
    px = "/" + "/".join(X["path"])
    crossing = [False]

    def check_path(cell, pos, raw, target_name, ls, mode, pred=False):
        """mode: 'ctx' (relative allowed, rule b applies), 'abs' (must be absolute), 'free' (only resolve)"""
        tn = byname[target_name][0]
        p = Path(raw)
        sig_ctx = f"{cell}:{case['shape']}"
        if not p.ok:
            viol.append((f"not-a-path:{sig_ctx}", f"{raw!r}"))
            return
        got = p.resolve(X["path"])
        if got != tn["path"]:
            viol.append((classify_wrong(case, nodes, X, tn, cell), f"cell={cell} emitted {raw!r} from {px} resolves to {got}, expected {tn['path']}"))
            return
        if ls != p.last_saved:
            viol.append((f"last-saved-prefix:{sig_ctx}", f"{raw!r} last_saved={p.last_saved} expected {ls}"))
        reps_t = repeat_ancestors(nodes, tn["i"])
        if reps_t or repeat_ancestors(nodes, X["i"]):
            crossing[0] = True
        if mode == "abs" or ls:
            if not p.absolute:
                viol.append((f"relative-where-absolute-required:{sig_ctx}:{pos}", raw))
        elif mode == "ctx":
            must_rel = bool(reps_t) and is_proper_ancestor(nodes, reps_t[0], X["i"])
            if must_rel and p.absolute:
                viol.append((f"absolute-where-relative-required:{sig_ctx}", f"{raw!r} target repeat {nodes[reps_t[0]]['name']} encloses referrer"))
            if pred:
                if not p.absolute and not p.current:
                    viol.append((f"missing-current():{sig_ctx}", raw))
            elif p.current:
                viol.append((f"unexpected-current():{sig_ctx}", raw))

    def in_pred(src, pos):
        # is the pos-th ${} of src inside [...] of an instance(...) path?
        ms = list(re.finditer(r"\$\{.*?\}", src))
        if "instance(" not in src or pos >= len(ms):
            return False
        m = ms[pos]
        return any(b.start() <= m.start() and m.end() <= b.end() for b in re.finditer(r"\[.*?\]", src))

    def ref_modes(src):
        """per ${} of src: 'abs' when it is argument 0, 1, 3 or 5 of an indexed-repeat() call"""
        modes = {}
        ms = list(re.finditer(r"\$\{.*?\}", src))
        for call in re.finditer(r"indexed-repeat\(([^()]*)\)", src):
            for pos, m in enumerate(ms):
                if call.start(1) <= m.start() and m.end() <= call.end(1):
                    argi = src[call.start(1):m.start()].count(",")
                    if argi in (0, 1, 3, 5):
                        modes[pos] = "abs"
        return modes

    def do_cell(cell, src, outtext, modes=None):
        modes = ref_modes(src)
        if outtext is None:
            viol.append((f"cell-missing:{cell}:{case['shape']}", f"no output place found for {cell}={src!r}"))
            return
        subs = align(src, outtext)
        rf = refs_in(src)
        if subs is None or len(subs) != len(rf):
            viol.append((f"cell-unaligned:{cell}:{case['shape']}", f"src={src!r} out={outtext!r}"))
            return
        for pos, ((ls, nm), raw) in enumerate(zip(rf, subs)):
            mode = (modes or {}).get(pos, "ctx")
            check_path(cell, pos, raw, nm, ls, mode, cell == "choice_filter" or in_pred(src, pos))

    bm = obs.bind_map()
    xb = bm.get(px, [None])[0]
    battr = {"relevant": "relevant", "constraint": "constraint", "required": "required", "read_only": "readonly",
             "bind::bz": "bz", "bind::by": "by"}
    ctrl = None
    for el, tag, ref, anc in obs.body_controls():
        if ref == px and tag not in ("setvalue", "repeat") and ctrl is None:
            ctrl = el
    rep_el = None
    for el, tag, ref, anc in obs.body_controls():
        if tag == "repeat" and ref == px:
            rep_el = el
    itx = {}
    for lang, dflt, texts in obs.itext:
        for tid, vals in texts:
            itx[tid] = {form: v for form, v in vals}

    def mixed(el_or_none, itext_key, form=None):
        """source-form text of a label/hint (inline or through itext)"""
        el = el_or_none
        if el is not None and el.get("ref"):
            tid = O.itext_id(el.get("ref"))
            el = itx.get(tid, {}).get(form)
        elif el is None and itext_key in itx:
            el = itx[itext_key].get(form)
        if el is None:
            return None
        s, vals = text_with_placeholders(el)
        return s, vals

    def do_mixed(cell, src, el, key, form=None):
        got = mixed(el, key, form)
        if got is None:
            viol.append((f"cell-missing:{cell}:{case['shape']}", f"{cell}={src!r}"))
            return
        s, vals = got
        # instance() expressions become one <output> whose value holds the expression
        lit_src = re.sub(r"instance\('c'\)/root/item\[.*?\]/label", "${@}", src)
        from xmc.pathmodel import norm_ws

        if norm_ws(re.sub(r"\$\{.*?\}", "${@}", lit_src)) != norm_ws(s):
            viol.append((f"cell-unaligned:{cell}:{case['shape']}", f"src={src!r} out={s!r}"))
            return
        exprs = re.findall(r"instance\('c'\)/root/item\[.*?\]/label|\$\{.*?\}", src)
        if len(exprs) != len(vals):
            viol.append((f"cell-unaligned:{cell}:{case['shape']}", f"src={src!r} outputs={vals!r}"))
            return
        for e, v in zip(exprs, vals):
            modes = ref_modes(e)
            subs = align(e, v)
            rf = refs_in(e)
            if subs is None or len(subs) != len(rf):
                viol.append((f"cell-unaligned:{cell}:{case['shape']}", f"src={e!r} out={v!r}"))
                continue
            for pos, ((ls, nm), raw) in enumerate(zip(rf, subs)):
                mode = (modes or {}).get(pos, "ctx")
                check_path(cell, pos, raw, nm, ls, mode, in_pred(e, pos))

    for cell, src in cells.items():
        if cell in battr:
            do_cell(cell, src, xb.get(battr[cell]) if xb is not None else None)
        elif cell.startswith("clabel::"):
            # the choice texts of that language: every output must reach its question from the select's node (absolute or relative)
            L = cell.split("::")[1]
            per = {tid: dict(vals) for lang, dflt, texts in obs.itext if lang == L for tid, vals in texts}
            for k_, c in enumerate(CHOICES):
                el = per.get(f"c-{k_}", {}).get(None)
                if el is None:
                    viol.append((f"cell-missing:{cell}:{case['shape']}", f"no text c-{k_} in language {L}"))
                    continue
                s_, vals = text_with_placeholders(el)
                rf = refs_in(src)
                if len(vals) != len(rf):
                    viol.append((f"cell-unaligned:{cell}:{case['shape']}", f"src={src!r} outputs={vals!r}"))
                    continue
                for pos, ((ls, nm), raw) in enumerate(zip(rf, vals)):
                    check_path(cell, pos, raw.strip(), nm, ls, "free")
        elif cell == "calculation":
            if case["shape"] == "trigger":
                tp = "/" + "/".join(T["path"])
                sv = None
                for el, tag, ref, anc in obs.body_controls():
                    if tag == "setvalue" and ref == px and anc and anc[-1].get("ref") == tp:
                        sv = el
                if sv is None:
                    viol.append(("trigger-setvalue-missing", f"no setvalue ref={px} nested in control {tp}"))
                else:
                    do_cell("trigger-value", src, sv.get("value"))
                if xb is not None and xb.get("calculate") is not None:
                    viol.append(("trigger-calculate-kept", xb.get("calculate")))
            else:
                do_cell(cell, src, xb.get("calculate") if xb is not None else None)
        elif cell in ("relevant",) and False:
            pass
        elif cell == "default":
            sv = [el for el, tag, ref, anc in obs.body_controls() if tag == "setvalue" and ref == px and "first-load" in (el.get("event") or "")]
            sv += [el for el in obs.model if O.local(el.tag) == "setvalue" and el.get("ref") == px]
            do_cell(cell, src, sv[0].get("value") if len(sv) == 1 else None)
        elif cell == "choice_filter":
            its = ctrl.find(O.X + "itemset") if ctrl is not None else None
            m = re.search(r"item\[(.*)\]", its.get("nodeset")) if its is not None else None
            do_cell(cell, src, m.group(1) if m else None)
        elif cell == "parameters":
            its = ctrl.find(O.X + "itemset") if ctrl is not None else None
            m = re.search(r"^randomize\(instance\('[^']*'\)/root/item(?:\[.*\])?,\s*(.*)\)$", its.get("nodeset")) if its is not None else None
            do_cell("seed", src.split("seed=")[1], m.group(1) if m else None)
        elif cell == "instance::ia":
            el = obs.paths.get(px)
            do_cell(cell, src, el.get("ia") if el is not None else None)
        elif cell == "body::bb":
            do_cell(cell, src, ctrl.get("bb") if ctrl is not None else None)
        elif cell == "repeat_count":
            do_cell(cell, src, rep_el.get(O.J + "count") if rep_el is not None else None)
        elif cell == "trigger":
            pass  # placement checked with the calculation cell above
        elif cell == "label":
            lab = None
            if ctrl is not None:
                lab = ctrl.find(O.X + "label")
            do_mixed(cell, src, lab, px + ":label")
        elif cell == "hint":
            h = ctrl.find(O.X + "hint") if ctrl is not None else None
            do_mixed(cell, src, h, px + ":hint")
        elif cell == "guidance_hint":
            do_mixed(cell, src, None, px + ":hint", "guidance")
        elif cell == "constraint_message":
            do_mixed(cell, src, None, px + ":jr:constraintMsg")
        elif cell == "required_message":
            do_mixed(cell, src, None, px + ":jr:requiredMsg")
    # indexed-repeat inside relevant/constraint: positions are absolute by design
    if case["shape"].startswith("lastsaved"):
        ls = [(i, s) for i, s, _ in obs.secondary_instances() if i == "__last-saved"]
        if len(ls) != 1 or ls[0][1] != "jr://instance/last-saved":
            where = "container-relevant" if X["kind"] != "q" and case["shape"] == "lastsaved" else (
                "text-cells-only" if case["shape"] == "lastsaved-text" else ("seed-parameter-only" if case["shape"] == "lastsaved-seed" else "question-logic"))
            viol.append((f"last-saved-instance-not-declared-once:{where}", str(ls)))
    return {"outcome": "ok", "nt": crossing[0] and not viol, "viol": viol, "tr": ntr}


def classify_wrong(case, nodes, X, tn, cell):
    """signature of a wrong-path violation from input features"""
    sig = f"wrong-path:{cell}:{case['shape']}"
    rx = repeat_ancestors(nodes, X["i"])
    rt = repeat_ancestors(nodes, tn["i"])
    if cell == "trigger-value" and len(X["path"]) != len(tn["path"]):
        return "wrong-path:trigger-value:evaluated-from-trigger-not-from-calculated-node"
    if rx and rt and rx[0] != rt[0]:
        a = "/" + "/".join(nodes[rt[0]]["path"])
        b = "/" + "/".join(nodes[rx[0]]["path"])
        if b.startswith(a) and not b.startswith(a + "/"):
            return "wrong-path:target-repeat-path-is-string-prefix-of-referrer-repeat-path"
    return sig


def check_error(case):
    wb = build_error(case)
    out = run_convert(wb)
    ntr = len(wb["survey"])
    viol = []
    if out.kind == "ok":
        viol.append((f"bad-reference-accepted:{case['err']}:{case['cell']}", case["tok"]))
    elif out.kind == "crash":
        viol.append((f"bad-reference-crash:{case['err']}:{case['cell']}:{out.exc}", f"{out.exc} {out.where} {out.msg}"))
    else:
        nm = case["name"]
        if nm and nm not in out.msg:
            viol.append((f"error-does-not-name-reference:{case['err']}:{case['cell']}", out.msg[:200]))
    return {"outcome": "reject-expected" if out.kind == "reject" else out.kind, "nt": out.kind == "reject", "viol": viol, "tr": ntr}

# as-built additions of the seventh wave (reported with the bound in the evidence)
BOUND = {k: v + "; seventh wave: " + 'a seven-argument indexed-repeat(); references in the translated labels of choices (two languages); capitalised names; a last-saved reference in the seed parameter alone' for k, v in BOUND.items()}
