"""C20 - advisory warnings fire exactly when their trigger is present, name the right subject,
and never change the conversion result.

Sub-spaces (all enumerated completely):
  tr     every subset (<= K) of translatable (sheet, column, language) headers on survey + choices,
         with and without an or_other select
  sheet  every string within edit distance <= 2 (plus a distance-3 shell) of each supported sheet
         name over a small alphabet, offered as an extra sheet while the real sheet is absent/present,
         with and without a leading underscore
  lang   all ordered pairs of language labels with / without bracketed IANA codes
  row    row-level triggers (image without max-pixels, deprecated metadata, unlabeled group/repeat
         with exemptions, unlabeled choice, disabled column) at every node of every layout, 0-2 per form
  misc   duplicate form_id/id_string headers, comment rows, choices header with a space
Oracle: an independent evaluation of every trigger on the abstract workbook gives the expected multiset
of (kind, subject, row); observed warnings are classified through stable key phrases and must match
exactly (iff); forms differing only in an advisory trigger must give the same XForm.
"""

import collections
import itertools
import os
import re

from xmc.impl import run_convert
from xmc.spaces import GenSpace, flatten, forests_upto
from props.C03 import forest_from_json, forest_to_json

ID = "C20"
LEVEL = "model_checking"
TECHNIQUE = ("explicit-state small-scope exploration: all subsets of translatable headers up to a size bound, all sheet-name strings within an edit "
             "radius, all language-label pairs, and every placement of row-level triggers over the layout space, each executed on the implementation; "
             "observed warnings classified and compared (iff, subject, row) with an independent trigger evaluation; advisory-only differential")
CLAIM = ("Every header subset / sheet name / language pair / trigger placement in the bound is converted by the real code; the multiset of warnings "
         "(kind, subject, row) must equal the one an independent reference (own Levenshtein, own IANA lookup, own missing-column computation) "
         "predicts, no unclassified warning may appear, every such form must still be accepted, and forms that differ only by an advisory trigger "
         "that does not touch the XForm must produce byte-identical XForm and itemsets.")
RULE = ("case = header subset | (sheet key, candidate name, real sheet present?) | language pair | (layout, trigger placements); non-trivial = a case "
        "whose expected warning multiset is non-empty and matched exactly, or a boundary negative (edit distance 3, underscore prefix, supported "
        "name, exemption) with no warning; distinct by canonical case hash")
ASSUMPTIONS = [
    "warnings are classified by stable key phrases; wording beyond kind / subject / row is not compared",
    "the IANA subtag text files of the tree under verification are read as data by the reference lookup",
    "deprecated metadata types = {subscriberid, simserial} and their older spellings",
]
BOUND = {
    "quick": "tr: subsets <=3 of 42 headers x or_other{0,1}; sheet: distance <=2 + distance-3 shell for settings/entities (warnings) and survey/choices/external_choices (error hints) over a 5-letter alphabet; lang: 11x11 pairs; row: L(3,3) x 0..2 triggers",
    "thorough": "tr: subsets <=4; sheet: same with 6-letter alphabet; lang: 14x14; row: L(4,3) x 0..2 triggers",
}
# as-built additions to the bound (kept next to BOUND so that the evidence reports them)
BOUND = {k: v + "; plus: " + 'choice advisories with clean_text_values=no; language names with several bracketed parts; supported sheet names in another case without data rows; labelled and unlabelled groups / repeats with table-list, field-list and custom appearances; unlabeled choices with repeated names under allow_choice_duplicates (27 name triples x 7 masks); both id headers with one cell blank / swapped order' for k, v in BOUND.items()}

SUPPORTED = {"survey", "choices", "settings", "external_choices", "osm", "entities"}
SV_COLS = ["label", "hint", "guidance_hint", "constraint_message", "required_message", "image", "audio", "video", "big-image"]
CH_COLS = ["label", "image", "audio", "video", "big-image"]
LANGS = [None, "English (en)", "French (fr)"]
MEDIA = {"image", "audio", "video", "big-image"}


def hdr(col, lang):
    base = f"media::{col}" if col in MEDIA else col
    return base if lang is None else f"{base}::{lang}"


def all_headers():
    return [("survey", c, l) for c in SV_COLS for l in LANGS] + [("choices", c, l) for c in CH_COLS for l in LANGS]


# ------------------------------------------------------------------ reference side -------
def lev(a, b):
    """own Levenshtein distance (dynamic programming)"""
    prev = list(range(len(b) + 1))
    for i, ca in enumerate(a, 1):
        cur = [i]
        for j, cb in enumerate(b, 1):
            cur.append(min(prev[j] + 1, cur[j - 1] + 1, prev[j - 1] + (ca != cb)))
        prev = cur
    return prev[-1]


_IANA = None


def iana():
    global _IANA
    if _IANA is None:
        from xmc.engine import REPO

        d = os.path.join(REPO, "pyxform", "validators", "pyxform", "iana_subtags")
        tags = set()
        for fn in ("iana_subtags_2_characters.txt", "iana_subtags_3_or_more_characters.txt"):
            with open(os.path.join(d, fn), encoding="utf-8") as f:
                tags |= {ln.strip() for ln in f}
        _IANA = tags
    return _IANA


def lang_ok(lang):
    if lang == "default":
        return True
    m = re.search(r"\(([^()]*)\)$", lang)
    return bool(m) and m.group(1) in iana()


def missing_expected(hs):
    """hs: iterable of (sheet, col, lang) -> set of ('missing', sheet, lang, col)"""
    out = set()
    for sheet in ("survey", "choices"):
        seen = collections.defaultdict(set)
        for s, c, l in hs:
            if s == sheet:
                seen[l or "default"].add(c)
        if not seen or set(seen) == {"default"}:
            continue
        cols = set().union(*seen.values())
        for l, have in seen.items():
            for c in cols - have:
                out.add(("missing", sheet, l, c))
    return out


# ------------------------------------------------------------------ classification -------
MISSING_RE = re.compile(r"^Language '(.*)' is missing the (survey|choices) (?:columns (.*)|(\S+) column)\.$")
ROW = r"\[row : (\d+)\]"


def classify(warnings):
    out = collections.Counter()
    for w in warnings:
        if w.startswith("Language '"):
            for line in w.split("\n"):
                m = MISSING_RE.match(line)
                if not m:
                    out[("unclassified", line[:80])] += 1
                    continue
                for c in (m.group(3).split(", ") if m.group(3) else [m.group(4)]):
                    out[("missing", m.group(2), m.group(1), c)] += 1
        elif w.startswith("This form uses or_other and translations"):
            out[("or_other",)] += 1
        elif w.startswith("When looking for a sheet named"):
            m = re.match(r"When looking for a sheet named '(\w+)', the following sheets with similar names were found: (.*?)\. If you do not mean", w, re.S)
            if not m:
                out[("unclassified", w[:80])] += 1
            else:
                names = tuple(sorted(re.findall(r"'((?:[^']|'(?!, |$))*)'", m.group(2))))
                out[("sheet", m.group(1), names)] += 1
        elif w.startswith("The following language declarations do not contain valid machine-readable codes: "):
            body = w[len("The following language declarations do not contain valid machine-readable codes: "):]
            body = body[: body.rindex(". Learn more")]
            out[("badlang", tuple(sorted(body.split(", "))))] += 1
        elif re.match(ROW + r" Use the max-pixels parameter", w):
            out[("maxpx", int(re.match(ROW, w).group(1)))] += 1
        elif re.match(ROW + r" (.+?) is no longer supported on most devices", w):
            m = re.match(ROW + r" (.+?) is no longer", w)
            out[("deprecated", int(m.group(1)), m.group(2))] += 1
        elif re.match(ROW + r" (Group|Repeat|Loop) has no label", w):
            m = re.match(ROW + r" (Group|Repeat|Loop) has no label: \{'name': '(\w+)'", w)
            out[("nolabel", int(m.group(1)), m.group(2).lower(), m.group(3))] += 1
        elif re.match(ROW + r" On the 'choices' sheet, the 'label' value is invalid", w):
            out[("choice-nolabel", int(re.match(ROW, w).group(1)))] += 1
        elif re.match(ROW + r" On the 'choices' sheet, the '(.*)' value is invalid. Column headers", w):
            out[("choice-header", re.match(ROW + r" On the 'choices' sheet, the '(.*)' value is invalid", w).group(2))] += 1
        elif re.match(ROW + r" The 'disabled' column header is not part", w):
            out[("disabled", int(re.match(ROW, w).group(1)))] += 1
        elif w.startswith("The form_id and id_string column headers are both"):
            out[("dupid",)] += 1
        elif re.match(ROW + r" Row without name, text, or label is being skipped", w):
            out[("comment", int(re.match(ROW, w).group(1)))] += 1
        elif re.match(ROW + r" select one external is only meant for filtered selects", w):
            out[("ext-unfiltered", int(re.match(ROW, w).group(1)))] += 1
        else:
            out[("unclassified", w[:80])] += 1
    return out


def compare(exp, obs, tag):
    viol = []
    if exp == obs:
        return viol
    for k in sorted(set(exp) | set(obs), key=str):
        e, o = exp.get(k, 0), obs.get(k, 0)
        if e == o:
            continue
        kind = k[0]
        if kind == "unclassified":
            viol.append((f"unexpected-warning:{tag}", f"{k[1]!r}"))
        elif o < e:
            viol.append((f"missing-warning:{kind}:{tag}", f"expected {k} x{e}, observed x{o}; all observed={dict(obs)}"))
        else:
            viol.append((f"spurious-warning:{kind}:{tag}", f"observed {k} x{o}, expected x{e}; all expected={dict(exp)}"))
    return viol[:4]


# ------------------------------------------------------------------ tr ------------------
def build_tr(hs, oo):
    hs = [tuple(h) for h in hs]
    sv = [(c, l) for s, c, l in hs if s == "survey"]
    ch = [(c, l) for s, c, l in hs if s == "choices"]
    visible = any(c in ("label", "hint") for c, _ in sv)

    def cells(pairs, mark):
        return {hdr(c, l): (f"{mark}.png" if c in ("image", "big-image") else f"{mark}.mp3" if c == "audio" else f"{mark}.mp4" if c == "video" else f"{mark} {c} {l or 'd'}") for c, l in pairs}

    rows = [{"type": "calculate", "name": "k", "calculation": "1", **{h: v for h, v in cells(sv, "k").items() if not h.startswith(("label", "hint", "guidance"))}}]
    if visible:
        rows.append({"type": "text", "name": "q", **cells(sv, "q")})
        rows.append({"type": "select_one c or_other" if oo else "select_one c", "name": "s", **cells(sv, "s")})
    wb = {"survey": rows}
    # explicit header row so that the header-level analysis sees exactly the chosen headers
    wb["survey_header"] = [{h: None for h in ["type", "name", "calculation", *[hdr(c, l) for c, l in sv]]}]
    chrows = [{"list_name": "c", "name": "x", **cells(ch, "x")}, {"list_name": "c", "name": "y", **cells(ch, "y")}]
    wb["choices"] = chrows
    wb["choices_header"] = [{h: None for h in ["list_name", "name", *[hdr(c, l) for c, l in ch]]}]
    exp = collections.Counter()
    for m in missing_expected(hs):
        exp[m] += 1
    if not any(c == "label" for c, _ in ch):
        exp[("choice-nolabel", 2)] += 1
        exp[("choice-nolabel", 3)] += 1
    translated = any(l for _, _, l in hs)
    if oo and visible and translated:
        exp[("or_other",)] += 1
    # big-image needs an image on the same element (any language): otherwise the form is refused
    big_wo_img = [s_ for s_ in ("survey", "choices") if any(s == s_ and c == "big-image" for s, c, l in hs) and not any(s == s_ and c == "image" for s, c, l in hs)]
    return wb, exp, visible, bool(big_wo_img)


def gen_tr(tier):
    K = 3 if tier == "quick" else 4
    H = all_headers()
    for k in range(0, K + 1):
        for combo in itertools.combinations(H, k):
            has_vis = any(s == "survey" and c in ("label", "hint") for s, c, l in combo)
            for oo in ((0, 1) if has_vis and k <= 3 else (0,)):
                yield {"g": "tr", "hs": [list(h) for h in combo], "oo": oo}


def check_tr(case):
    wb, exp, visible, big_wo_img = build_tr(case["hs"], case["oo"])
    out = run_convert(wb)
    if out.kind == "crash":
        return {"outcome": "tr-crash", "nt": False, "viol": [(f"internal-exception:{out.exc}:{out.where}", out.msg)], "tr": len(case["hs"]) + 1}
    if big_wo_img and out.kind == "reject" and "big-image" in out.msg:
        # documented refusal for labelled elements (big-image needs an image); kept so that the subsets stay complete
        return {"outcome": "tr-bigimage-refused", "nt": False, "viol": [], "tr": len(case["hs"]) + 1}
    if out.kind == "reject":
        return {"outcome": "tr-reject", "nt": False, "viol": [("rejected:tr", out.msg[:200])], "tr": len(case["hs"]) + 1}
    viol = compare(exp, classify(out.warnings), "tr")
    return {"outcome": "tr-warn" if exp else "tr-quiet", "nt": bool(exp) and not viol, "viol": viol, "tr": len(case["hs"]) + 1,
            "extra": {"missing-triples-checked": sum(1 for k in exp if k[0] == "missing")}}


# ------------------------------------------------------------------ sheet ---------------
def edits1(s, sigma):
    out = set()
    for i in range(len(s) + 1):
        for ch in sigma:
            out.add(s[:i] + ch + s[i:])
        if i < len(s):
            out.add(s[:i] + s[i + 1:])
            for ch in sigma:
                out.add(s[:i] + ch + s[i + 1:])
    out.discard(s)
    return out


def candidates(key, tier):
    sigma = sorted(set(key[:3]) | {"x", "_"}) if tier == "quick" else sorted(set(key[:4]) | {"x", "_"})
    d1 = edits1(key, sigma)
    d2 = set()
    for s in d1:
        d2 |= edits1(s, sigma)
    d2 -= d1
    d2.discard(key)
    near = sorted(d1) + sorted(d2)
    shell = set()
    for s in sorted(d2)[::7]:
        shell |= {t for t in list(edits1(s, sigma))[:6]}
    shell -= set(near)
    shell.discard(key)
    return near, sorted(shell)


BASE_SV = [{"type": "text", "name": "q", "label": "Q"}]
_BASE_X = {}


def build_sheet(key, name, present):
    wb = {"survey": [dict(r) for r in BASE_SV]}
    names = ["survey"]
    if key == "settings":
        if present:
            wb["settings"] = [{"form_title": "data"}]
            names.append("settings")
    elif key == "entities":
        if present:
            wb["entities"] = [{"list_name": "trees", "label": "a"}]
            names.append("entities")
    elif key == "choices":
        wb["survey"].append({"type": "select_one c", "name": "s", "label": "S"})
        if present:
            wb["choices"] = [{"list_name": "c", "name": "x", "label": "X"}]
            names.append("choices")
    elif key == "external_choices":
        wb["survey"].append({"type": "select_one_external e", "name": "s", "label": "S", "choice_filter": "a=${q}"})
        if present:
            wb["external_choices"] = [{"list_name": "e", "name": "x", "label": "X", "a": "1"}]
            names.append("external_choices")
    elif key == "survey":
        if not present:
            del wb["survey"]
            names.remove("survey")
    if name is not None:
        names.append(name)
    wb["sheet_names"] = names
    return wb


def near_expected(key, name):
    # (a supported name in another case is that sheet itself, not a misspelling of it)
    return name is not None and lev(name.lower(), key) <= 2 and name.lower() not in SUPPORTED and not name.startswith("_")


def gen_sheet(tier):
    for key in ("settings", "entities", "survey", "choices", "external_choices"):
        near, shell = candidates(key, tier)
        pool = [None, *near, *shell]
        extra = {"_" + key, "_" + key[:-1], key.upper(), key.capitalize(), key[:-1].upper(), "osm", "survey", "choices", "settings", "entities",
                 "external_choices", key + " ", " " + key[:-1]} - {key}
        for name in [*pool, *sorted(extra)]:
            for present in (False, True):
                if present and name is not None and tier == "quick" and key not in ("settings", "entities") and lev(name, key) > 1:
                    continue
                yield {"g": "sheet", "key": key, "name": name, "present": present}
                if name is not None and not name.startswith("_") and lev(name, key) <= 1:
                    yield {"g": "sheet", "key": key, "name": "_" + name, "present": present}


def check_sheet(case):
    key, name, present = case["key"], case["name"], case["present"]
    wb = build_sheet(key, name, present)
    out = run_convert(wb)
    viol = []
    near = near_expected(key, name)
    if out.kind == "crash":
        return {"outcome": "sheet-crash", "nt": False, "viol": [(f"internal-exception:{out.exc}:{out.where}", out.msg)], "tr": 1}
    hard = key in ("survey", "choices", "external_choices")
    if hard and not present:
        # the real sheet is needed: conversion must fail and the message carries the hint iff a near name exists
        if out.kind != "reject":
            viol.append((f"accepted:missing-{key}-sheet", str(name)))
        else:
            has = "similar names were found" in out.msg
            named = name is not None and f"'{name}'" in out.msg
            if near and not (has and named):
                viol.append((f"missing-hint:sheet:{key}", f"name={name!r} msg={out.msg[:200]!r}"))
            if not near and has:
                viol.append((f"spurious-hint:sheet:{key}", f"name={name!r} lev={lev((name or '').lower(), key)} msg={out.msg[:200]!r}"))
        return {"outcome": f"sheet-hard-{'near' if near else 'far'}", "nt": not viol, "viol": viol, "tr": 1}
    if out.kind != "ok":
        return {"outcome": "sheet-reject", "nt": False, "viol": [(f"rejected:sheet:{key}", f"name={name!r} present={present} msg={out.msg[:200]!r}")], "tr": 1}
    exp = collections.Counter()
    if near and not present and key in ("settings", "entities"):
        exp[("sheet", key, (name,))] += 1
    obs = classify(out.warnings)
    if key == "settings" or present or True:
        # other keys' spelling checks may legitimately fire too (e.g. a name near both 'settings' and 'entities'): evaluate them as well
        for other in ("settings", "entities"):
            if other != key and other not in wb and near_expected(other, name):
                exp[("sheet", other, (name,))] += 1
    viol += compare(exp, obs, f"sheet:{key}")
    # advisory only: same XForm as the form without the extra sheet
    bk = (key, present)
    if bk not in _BASE_X:
        _BASE_X[bk] = run_convert(build_sheet(key, None, present))
    b = _BASE_X[bk]
    if b.kind == "ok" and (b.xform != out.xform or b.itemsets != out.itemsets):
        viol.append((f"advisory-changed-result:sheet:{key}", f"name={name!r}"))
    boundary = name is not None and (lev(name.lower(), key) == 3 or name.startswith("_") or name in SUPPORTED)
    return {"outcome": f"sheet-{'warn' if exp else 'quiet'}", "nt": (bool(exp) or boundary) and not viol, "viol": viol, "tr": 1,
            "extra": {"boundary-negatives": int(boundary and not exp)}}


# ------------------------------------------------------------------ lang ----------------
LABELS_Q = ["default", "English (en)", "English", "en", "Klingon (tlh-x)", "French (fr)", "X ()", "e", "Acoli (ach)", "English(en)", "fr (fr"]
LABELS_Q += ["Español (Latin America) (es)", "A (b) (zz-not)", "(x) (fr)"]
LABELS_T = [*LABELS_Q, "(en)", "English (EN)", "Español (es)"]


def file_edge_labels():
    """language labels built from the first and last entries of the two IANA subtag files (and neighbours that are not codes)"""
    from xmc.engine import REPO

    d = os.path.join(REPO, "pyxform", "validators", "pyxform", "iana_subtags")
    out = []
    for fn in ("iana_subtags_2_characters.txt", "iana_subtags_3_or_more_characters.txt"):
        with open(os.path.join(d, fn), encoding="utf-8") as f:
            tags = [ln.strip() for ln in f if ln.strip()]
        for t in (tags[0], tags[1], tags[len(tags) // 2], tags[-2], tags[-1]):
            out.append(f"L{len(out)} ({t})")
        out.append(f"L{len(out)} ({tags[-1]}q)")
    return out


def gen_lang(tier):
    labs = LABELS_Q if tier == "quick" else LABELS_T
    for a in file_edge_labels():
        yield {"g": "lang", "langs": [a]}
        yield {"g": "lang", "langs": ["default", a]}
    for a in labs:
        for b in labs:
            yield {"g": "lang", "langs": [a, b]}
            # the form names one of its languages as the default (settings sheet or argument): the code check is the same
            if a != b and "default" not in (a, b):
                yield {"g": "lang", "langs": [a, b], "dl": a, "via": "settings"}
                yield {"g": "lang", "langs": [a, b], "dl": b, "via": "arg"}
        yield {"g": "lang", "langs": [a]}


def check_lang(case):
    langs = list(dict.fromkeys(case["langs"]))
    row = {"type": "text", "name": "q"}
    for l in langs:
        row["label" if l == "default" else f"label::{l}"] = f"L {l}"
    wb_, kw_ = {"survey": [row]}, {}
    if case.get("dl"):
        if case["via"] == "settings":
            wb_["settings"] = [{"default_language": case["dl"]}]
        else:
            kw_["default_language"] = case["dl"]
    out = run_convert(wb_, **kw_)
    if out.kind != "ok":
        sig = f"internal-exception:{out.exc}:{out.where}" if out.kind == "crash" else "rejected:lang"
        return {"outcome": f"lang-{out.kind}", "nt": False, "viol": [(sig, f"{langs} {out.msg[:200]}")], "tr": 1}
    # a form whose only language is the unsuffixed one has no itext at all
    used = [l for l in langs if l != "default"] if any(l != "default" for l in langs) else []
    bad = tuple(sorted(l for l in used if not lang_ok(l)))
    exp = collections.Counter()
    if bad:
        exp[("badlang", bad)] += 1
    if len(langs) > 1 or (langs and langs[0] != "default"):
        pass
    obs = classify(out.warnings)
    obs = collections.Counter({k: v for k, v in obs.items() if k[0] != "missing"})
    viol = compare(exp, obs, "lang")
    return {"outcome": f"lang-{'warn' if exp else 'quiet'}", "nt": not viol and bool(used), "viol": viol, "tr": 1}


# ------------------------------------------------------------------ row -----------------
NAMES = ["a", "b", "d", "e", "f", "g"]
Q_TRIG = ["image", "q image", "q picture", "photo", "add image prompt", "q picture-maxpx", "image-maxpx", "image-app", "image-app-maxpx", "subscriberid", "simserial", "sim id", "get subscriber id", "uri:simserial", "uri:subscriberid", "uri:deviceid", "get device id", "deviceid", "phonenumber", "disabled-no", "disabled-yes", "comment"]
C_TRIG = ["nolabel", "nolabel-fieldlist", "nolabel-media", "disabled-no", "label-tablelist", "label-fieldlist", "label-custom", "nolabel-tablelist", "nolabel-custom", "label-hint"]


def build_row(forest, trig):
    """trig: {node index: trigger}; -> workbook, expected Counter, neutral workbook (or None)"""
    trig = {int(k): v for k, v in trig.items()}
    nodes = flatten(forest, NAMES)
    rows = []
    exp = collections.Counter()
    ctr = [0]
    skipping = [0]

    def rec(f):
        for t in f:
            i = ctr[0]
            ctr[0] += 1
            nm = NAMES[i]
            tg = trig.get(i)
            rn = len(rows) + 2
            if t[0] == "q":
                r = {"type": "text", "name": nm, "label": nm}
                if tg in ("image", "q image", "q picture", "photo", "add image prompt"):  # every spelling of the image type
                    r = {"type": tg, "name": nm, "label": nm}
                    exp[("maxpx", rn)] += 1
                elif tg == "q picture-maxpx":
                    r = {"type": "q picture", "name": nm, "label": nm, "parameters": "max-pixels=640"}
                elif tg == "image-maxpx":
                    r = {"type": "image", "name": nm, "label": nm, "parameters": "max-pixels=640"}
                elif tg == "image-app":
                    # other parameters do not stand in for max-pixels
                    r = {"type": "image", "name": nm, "label": nm, "parameters": "app=com.example.cam"}
                    exp[("maxpx", rn)] += 1
                elif tg == "image-app-maxpx":
                    r = {"type": "image", "name": nm, "label": nm, "parameters": "app=com.example.cam max-pixels=320"}
                elif tg in ("subscriberid", "simserial", "sim id", "get subscriber id", "uri:simserial", "uri:subscriberid"):
                    r = {"type": tg, "name": nm}
                    exp[("deprecated", rn, tg)] += 1
                elif tg in ("get device id", "uri:deviceid"):
                    r = {"type": tg, "name": nm}
                elif tg in ("deviceid", "phonenumber"):
                    r = {"type": tg, "name": nm}
                elif tg == "disabled-no":
                    r["disabled"] = "no"
                    exp[("disabled", rn)] += 1
                elif tg == "disabled-yes":
                    r["disabled"] = "yes"
                    exp[("disabled", rn)] += 1
                elif tg == "comment":
                    rows.append({"hint": "just a comment"})
                    exp[("comment", rn)] += 1
                rows.append(r)
            else:
                kind = "group" if t[0] == "g" else "repeat"
                r = {"type": f"begin {kind}", "name": nm, "label": nm}
                if tg == "nolabel":
                    del r["label"]
                    exp[("nolabel", rn, kind, nm)] += 1
                elif tg == "nolabel-fieldlist":
                    del r["label"]
                    r["appearance"] = "field-list"
                    if kind != "group":
                        exp[("nolabel", rn, kind, nm)] += 1
                elif tg in ("label-tablelist", "label-fieldlist", "label-custom"):
                    r["appearance"] = {"label-tablelist": "table-list", "label-fieldlist": "field-list", "label-custom": "w1 compact"}[tg]
                elif tg == "label-hint":
                    r["hint"] = "a hint"
                elif tg in ("nolabel-tablelist", "nolabel-custom"):
                    del r["label"]
                    r["appearance"] = "table-list" if tg.endswith("tablelist") else "w1"
                    exp[("nolabel", rn, kind, nm)] += 1
                elif tg == "nolabel-media":
                    del r["label"]
                    r["media::image"] = "g.png"
                elif tg == "disabled-no":
                    r["disabled"] = "no"
                    exp[("disabled", rn)] += 1
                rows.append(r)
                rec(t[1])
                rows.append({"type": f"end {kind}"})

    rec(forest)
    return {"survey": rows}, exp


def gen_row(tier):
    N = 3 if tier == "quick" else 4
    for forest in forests_upto(N, 3):
        fj = forest_to_json(forest)
        nodes = flatten(forest, NAMES)
        opts = {n["i"]: (Q_TRIG if n["kind"] == "q" else C_TRIG) for n in nodes}
        yield {"g": "row", "f": fj, "trig": {}}
        for i in opts:
            for t in opts[i]:
                yield {"g": "row", "f": fj, "trig": {str(i): t}}
        for i, j in itertools.combinations(sorted(opts), 2):
            for t in opts[i]:
                for u in opts[j]:
                    yield {"g": "row", "f": fj, "trig": {str(i): t, str(j): u}}
    for v in ("choice-nolabel-0", "choice-nolabel-1", "choice-nolabel-both", "choice-header-space", "dupid", "dupid-one",
              "dupid-idstring-blank", "dupid-formid-blank", "dupid-swapped"):
        yield {"g": "misc", "v": v}
        if v.startswith("choice-"):
            # the same advisory with text cleaning switched off (row numbers are still cited)
            yield {"g": "misc", "v": v, "ctv": "no"}
        if v.startswith("choice-nolabel"):
            # blank rows above (kept by the spreadsheet readers): the cited rows shift by exactly that many
            for nb in (1, 2):
                for fmt in ("dict", "xlsx", "xls"):
                    yield {"g": "misc", "v": v, "blank": nb, "fmt": fmt}
    # unlabeled choices in lists with repeated choice names (allowed by the setting): every unlabeled row is named
    import itertools as _it

    for names in _it.product("xy", repeat=3):
        for mask in range(1, 8):
            yield {"g": "misc", "v": "dupnames", "names": list(names), "mask": mask}
            if mask in (1, 5):
                yield {"g": "misc", "v": "dupnames", "names": list(names), "mask": mask, "ctv": "no"}


def check_row(case):
    forest = forest_from_json(case["f"])
    wb, exp = build_row(forest, case["trig"])
    # a container all of whose rows are disabled/skipped is still valid (empty sections are allowed)
    out = run_convert(wb)
    if out.kind == "crash":
        return {"outcome": "row-crash", "nt": False, "viol": [(f"internal-exception:{out.exc}:{out.where}", out.msg)], "tr": len(wb["survey"])}
    if out.kind == "reject":
        return {"outcome": "row-reject", "nt": False, "viol": [], "unexp": True, "why": out.msg[:200], "tr": len(wb["survey"])}
    viol = compare(exp, classify(out.warnings), "row")
    # advisory only: 'disabled=no' and comment rows must not change the XForm
    if not viol and any(t in ("disabled-no", "comment") for t in case["trig"].values()):
        t2 = {k: v for k, v in case["trig"].items() if v not in ("disabled-no", "comment")}
        wb2, _ = build_row(forest, t2)
        o2 = run_convert(wb2)
        # (the two helper nodes of a table-list group are named after their row number, which a comment row shifts)
        gen = lambda x: re.sub(r"(generated_table_list_label|reserved_name_for_field_list_labels)_\d+", r"\1_N", x)
        if o2.kind == "ok" and gen(o2.xform) != gen(out.xform):
            viol.append(("advisory-changed-result:row", f"trig={case['trig']}"))
    return {"outcome": f"row-{'warn' if exp else 'quiet'}", "nt": bool(case["trig"]) and not viol, "viol": viol, "tr": len(wb["survey"])}


def check_misc(case):
    v = case["v"]
    wb = {"survey": [{"type": "select_one c", "name": "s", "label": "S"}],
          "choices": [{"list_name": "c", "name": "x", "label": "X"}, {"list_name": "c", "name": "y", "label": "Y"}]}
    exp = collections.Counter()
    if v.startswith("choice-nolabel"):
        for k in ((0,) if v.endswith("-0") else (1,) if v.endswith("-1") else (0, 1)):
            del wb["choices"][k]["label"]
            exp[("choice-nolabel", k + 2)] += 1
        if v.endswith("both"):
            wb["choices"][0]["z"] = "1"  # keep a non-key column so that the sheet still has three headers
    elif v == "choice-header-space":
        for r in wb["choices"]:
            r["my col"] = "1"
        exp[("choice-header", "my col")] += 1
    elif v == "dupid":
        wb["settings"] = [{"form_id": "a", "id_string": "a"}]
        wb["settings_header"] = [{"form_id": None, "id_string": None}]  # as every container backend supplies it
        exp[("dupid",)] += 1
    elif v == "dupid-one":
        wb["settings"] = [{"form_id": "a"}]
    elif v in ("dupid-idstring-blank", "dupid-formid-blank", "dupid-swapped"):
        # both headers exist; the readers drop empty cells from the row
        wb["settings"] = [{"form_id": "a"}] if v != "dupid-formid-blank" else [{"id_string": "a"}]
        hdr = ["id_string", "form_id"] if v == "dupid-swapped" else ["form_id", "id_string"]
        wb["settings_header"] = [{h: None for h in hdr}]
        exp[("dupid",)] += 1
    elif v == "dupnames":
        wb["choices"] = []
        for i, nm in enumerate(case["names"]):
            r = {"list_name": "c", "name": nm}
            if not case["mask"] >> i & 1:
                r["label"] = f"L{i}"
            else:
                exp[("choice-nolabel", i + 2)] += 1
            wb["choices"].append(r)
        if all(case["mask"] >> i & 1 for i in range(3)):
            wb["choices"][0]["z"] = "1"
        wb["settings"] = [{"allow_choice_duplicates": "yes"}]
    if case.get("ctv"):
        wb.setdefault("settings", [{}])[0]["clean_text_values"] = case["ctv"]
    src, ckw = wb, {}
    if case.get("blank"):
        nb = case["blank"]
        wb["choices"][0:0] = [{} for _ in range(nb)]
        exp = collections.Counter({(k[0], k[1] + nb, *k[2:]) if k[0] == "choice-nolabel" else k: n_ for k, n_ in exp.items()})
        if case["fmt"] != "dict":
            from xmc import render

            hs = list(dict.fromkeys(k_ for r_ in wb["choices"] for k_ in r_))
            tabs = {"survey": [list(wb["survey"][0]), [wb["survey"][0][k_] for k_ in wb["survey"][0]]],
                    "choices": [hs, *[[r_.get(k_) for k_ in hs] for r_ in wb["choices"]]]}
            src, ckw = render.render({"survey": wb["survey"], "choices": [r_ for r_ in wb["choices"] if r_]}, case["fmt"], tabs)
    out = run_convert(src, **ckw)
    if out.kind != "ok":
        sig = f"internal-exception:{out.exc}:{out.where}" if out.kind == "crash" else f"rejected:misc:{v}"
        return {"outcome": f"misc-{out.kind}", "nt": False, "viol": [(sig, out.msg[:200])], "tr": 1}
    viol = compare(exp, classify(out.warnings), f"misc:{v}")
    return {"outcome": f"misc-{'warn' if exp else 'quiet'}", "nt": not viol, "viol": viol, "tr": 1}


SPACE = GenSpace({"tr": gen_tr, "sheet": gen_sheet, "lang": gen_lang, "row": gen_row}, chunk=400)
blocks = SPACE.blocks
expand = SPACE.expand


def required_outcomes(tier):
    return {"tr-warn", "tr-quiet", "sheet-warn", "sheet-quiet", "sheet-hard-near", "sheet-hard-far", "lang-warn", "lang-quiet", "row-warn", "row-quiet", "misc-warn"}


def check_one(case):
    return {"tr": check_tr, "sheet": check_sheet, "lang": check_lang, "row": check_row, "misc": check_misc}[case["g"]](case)

# as-built additions of the seventh wave (reported with the bound in the evidence)
BOUND = {k: v + "; seventh wave: " + 'every spelling of the image and deprecated metadata types among the row triggers' for k, v in BOUND.items()}
