"""C18 - validator verdicts are honoured and failures leave no residue.

Exhaustive fault enumeration with a scripted environment: the external validator is a stand-in
executable named `java` put first on PATH, scripted per execution; every cell of
  validator outcome x entry point x form x pre-existing output file
is executed on the real code (library calls in-process, CLI as a subprocess), each with a private
empty TMPDIR, and compared with a reference outcome table derived from the statement.  A second
sub-space injects one OSError at each I/O call of the library / xls2xform_convert path in turn.
"""

import builtins
import io
import itertools
import json
import os
import pathlib
import re
import shutil
import signal
import subprocess
import sys
import tempfile

from xmc.engine import REPO
from xmc.spaces import GenSpace

ID = "C18"
LEVEL = "fault_enumeration"
TECHNIQUE = ("exhaustive fault enumeration under a scripted environment: every validator outcome (exit code x stderr script up to a length bound, killed, "
             "absent, corrupt jar) x entry point x form x pre-existing output executed on the implementation with a stand-in java on PATH and a private "
             "TMPDIR, plus every single injected I/O fault on the temp-file path; compared with a reference outcome table and an independent error cleaner")
CLAIM = ("Every cell of the outcome x entry-point x form x pre-existing-file product, and every single I/O fault, is executed against the real code. "
         "Reject => ODKValidateError / code 999 carrying the reference-cleaned stderr, no XForm at the output path (removed in plain mode, untouched "
         "otherwise); accept => stderr surfaced as warnings (101 else 100), file equals the library result, itemsets.csv iff external choices; java "
         "absent => OSError / 999; --skip_validate never runs the validator; and under every cell the private TMPDIR is empty afterwards.")
RULE = ("case = (validator script, entry point, form, pre-existing output) or (entry point, fault index); non-trivial = the validator was actually "
        "invoked or a fault was actually injected, and the reference table fixed a non-default outcome; distinct by canonical case hash")
ASSUMPTIONS = [
    "the stand-in `java` is a /bin/sh script writing the scripted stderr and exiting / killing itself as scripted; the 100 s watchdog is not exercised",
    "CLI runs are `python -m pyxform.xls2xform` subprocesses of the tree under verification with PATH reduced to the stand-in directory",
    "the reference cleaner is written from the statement (paths -> ${name} except the excluded families; consecutive duplicates and Java stack lines dropped)",
]
BOUND = {
    "quick": "library + xls2xform_convert: all stderr scripts of <=2 lines over a 8-line alphabet x exit {0,1,2,255} + killed/absent/corrupt; CLI: 7 representative scripts x 10 entry variants x 3 forms x 2 pre-existing states; single I/O faults on both library paths",
    "thorough": "same with scripts of <=3 lines for the library paths and 16 scripts for the CLI",
}
# as-built additions to the bound (kept next to BOUND so that the evidence reports them)
BOUND = {k: v + "; plus: " + 'a stderr line starting with WARNING: in the line alphabet; 200 KiB of validator output on stdout or stderr x exit {0,1}; validator output that is not valid UTF-8 (3 byte scripts x exit {0,1})' for k, v in BOUND.items()}

LINES = [
    "Something broke the parser.",
    "Problem found at nodeset: /data/g/q",
    "XPath error in /html/body/input[@ref=/data/q] label",
    "\tat org.javarosa.core.model.FormDef.initialize(FormDef.java:1)",
    "java.lang.RuntimeException: boom /data/a_b/c-d",
    "Error: Unable to access jarfile /x/ODK_Validate.jar",
    "instance('c')/root/item/name and /data/s/item/value and /html/head/model/bind[@nodeset=/data/q]",
    "WARNING: deprecated attribute at /data/q",
]
FORM_VALID = "| survey |\n| | type | name | label |\n| | text | q | Q |\n"
FORM_EXT = ("| survey |\n| | type | name | label | choice_filter |\n| | text | q | Q | |\n| | select_one_external e | s | S | state=${q} |\n"
            "| external_choices |\n| | list_name | name | label | state |\n| | e | p | P | s1 |\n| | e | r | | s2 |\n")
FORM_BAD = "| survey |\n| | type | name | label |\n| | text | q | ${zz} |\n"
FORMS = {"valid": FORM_VALID, "ext": FORM_EXT, "bad": FORM_BAD}
MARKER = "PRE-EXISTING OUTPUT MARKER\n"


# ------------------------------------------------------------------ reference cleaner ----
PATH_RE = re.compile(r"(/[A-Za-z0-9\-_]+(?:/[A-Za-z0-9\-_]+)+)")


def ref_clean(stderr):
    if "Error: Unable to access jarfile" in stderr:
        return stderr

    def tok(m):
        s = m.group()
        if s.startswith(("/html/body", "/root/item", "/html/head/model/bind")) or s.endswith("/item/value"):
            return s
        return "${" + s.split("/")[-1] + "}"

    text = PATH_RE.sub(tok, stderr)
    lines = text.strip().splitlines()
    out = []
    for i, ln in enumerate(lines):
        if i > 0 and ln == lines[i - 1]:
            continue
        if ".java:" in ln or "\tat" in ln:
            continue
        for pre in ("java.lang.RuntimeException: ", "org.javarosa.xpath.XPathUnhandledException: "):
            if ln.startswith(pre):
                ln = ln[len(pre):]
        out.append(ln)
    return "\n".join(out)


# ------------------------------------------------------------------ environment ----------
class Env:
    """private case directory: bin/java stand-in, tmp/, out/"""

    def __init__(self, v):
        self.d = tempfile.mkdtemp(prefix="c18.", dir=os.environ.get("VERIF_WORK", "/var/tmp"))
        self.bin = os.path.join(self.d, "bin")
        self.tmp = os.path.join(self.d, "tmp")
        self.out = os.path.join(self.d, "out")
        for p in (self.bin, self.tmp, self.out):
            os.mkdir(p)
        self.log = os.path.join(self.d, "invocations.log")
        kind = v["kind"]
        if kind in ("exit", "kill"):
            with open(os.path.join(self.d, "stderr.txt"), "wb") as f:
                f.write(bytes.fromhex(v["stderr_hex"]) if v.get("stderr_hex") else v.get("stderr", "").encode("utf-8"))
            tail = f"exit {v['rc']}" if kind == "exit" else f"kill -{v['sig']} $$"
            chat = ""
            if v.get("stdout_kb"):
                with open(os.path.join(self.d, "stdout.txt"), "wb") as f:
                    f.write(b"chatty validator output line\n" * (v["stdout_kb"] * 1024 // 29))
                chat = f"/bin/cat {self.d}/stdout.txt\n"
            sh = f"#!/bin/sh\necho \"$*\" >> {self.log}\n{chat}/bin/cat {self.d}/stderr.txt >&2\n{tail}\n"
            p = os.path.join(self.bin, "java")
            with open(p, "w") as f:
                f.write(sh)
            os.chmod(p, 0o755)
            self.path = self.bin
        elif kind == "absent":
            self.path = self.bin
        elif kind == "corrupt":
            self.path = os.path.dirname(shutil.which("java") or "/usr/bin/java")
        self.xlsform = os.path.join(self.d, "form.md")

    def invocations(self):
        if not os.path.exists(self.log):
            return 0
        with open(self.log) as f:
            return len(f.read().splitlines())

    def tmp_residue(self):
        return sorted(os.listdir(self.tmp))

    def close(self):
        shutil.rmtree(self.d, ignore_errors=True)


def expected_class(v):
    k = v["kind"]
    if k == "absent":
        return "absent"
    if k == "corrupt":
        return "reject"
    if k == "kill":
        return "killed"
    if v["rc"] > 0:
        return "reject"
    return "accept-stderr" if v.get("stderr") else "accept"


# ------------------------------------------------------------------ space ----------------
def scripts(maxlen):
    out = [""]
    for n in range(1, maxlen + 1):
        for combo in itertools.product(range(len(LINES)), repeat=n):
            out.append("\n".join(LINES[i] for i in combo) + "\n")
    return out


CLI_SCRIPTS = ["", LINES[0] + "\n", LINES[1] + "\n" + LINES[1] + "\n", LINES[3] + "\n" + LINES[4] + "\n", LINES[5] + "\n", LINES[6] + "\n",
               "\n\n", LINES[2] + "\n", LINES[4] + "\n" + LINES[3] + "\n" + LINES[4] + "\n", "  \n" + LINES[0] + "\n", LINES[1] + "\n" + LINES[0] + "\n" + LINES[1] + "\n",
               LINES[0], LINES[0] + "\r\n" + LINES[1] + "\r\n", "é ü 😀 /data/é\n", LINES[1] * 3 + "\n", LINES[3] + "\n"]


def validators(tier, rich):
    vs = []
    if rich:
        ss = scripts(2 if tier == "quick" else 3)
        rcs = (0, 1, 2, 255)
    else:
        ss = CLI_SCRIPTS[:7] if tier == "quick" else CLI_SCRIPTS
        rcs = (0, 1, 255) if tier == "thorough" else (0, 1)
    for s in ss:
        for rc in rcs:
            vs.append({"kind": "exit", "rc": rc, "stderr": s})
    # validator output that is not valid UTF-8 (a Windows code page): the verdict must still be honoured
    for raw in (b"Ung\x81ltig /data/q\n", b"\xff\xfe bad\n", b"caf\xe9\n"):
        for rc in (0, 1):
            vs.append({"kind": "exit", "rc": rc, "stderr": raw.decode("latin-1"), "stderr_hex": raw.hex(), "loose": True})
    # output larger than a pipe buffer, on either stream (the validator is chatty on stdout): the verdict and the text still arrive
    big = "".join(f"problem {i:05d} in the form\n" for i in range(8000))
    for rc in (0, 1):
        vs.append({"kind": "exit", "rc": rc, "stderr": LINES[0] + "\n", "stdout_kb": 200})
        vs.append({"kind": "exit", "rc": rc, "stderr": big})
    vs += [{"kind": "kill", "sig": 9, "stderr": LINES[0] + "\n"}, {"kind": "kill", "sig": 15, "stderr": ""}, {"kind": "absent"}, {"kind": "corrupt"}]
    return vs


CLI_ENTRIES = [[], ["--json"], ["--skip_validate"], ["--odk_validate"], ["--json", "--skip_validate"], ["--json", "--odk_validate"]]


def gen_lib(tier):
    for v in validators(tier, True):
        for form in ("valid", "ext", "bad"):
            if form != "valid" and v["kind"] == "exit" and v["stderr"].count("\n") > 1:
                continue
            for pp in (False, True):
                if pp and v["kind"] == "exit" and v["stderr"].count("\n") > 1:
                    continue
                yield {"g": "lib", "v": v, "form": form, "pp": pp}


def gen_conv(tier):
    for v in validators(tier, True):
        if v["kind"] == "exit" and v["stderr"].count("\n") > 1 and v["rc"] in (2, 255):
            continue
        for form in ("valid", "ext", "bad"):
            if form == "bad" and v["kind"] == "exit" and v["stderr"].count("\n") > 1:
                continue
            for pre in (False, True):
                for validate in (True, False):
                    if not validate and (v["kind"] != "exit" or v["stderr"].count("\n") > 0 or v["rc"] not in (0, 1)):
                        continue
                    yield {"g": "conv", "v": v, "form": form, "pre": pre, "validate": validate}


def gen_cli(tier):
    for v in validators(tier, False):
        for entry in CLI_ENTRIES:
            for form in ("valid", "ext", "bad"):
                for pre in (False, True):
                    pps = (False, True) if (entry in ([], ["--json"]) and form == "valid") else (False,)
                    for pp in pps:
                        yield {"g": "cli", "v": v, "entry": entry, "form": form, "pre": pre, "pp": pp}
    # no explicit output path: the tool derives <stem>.xml beside the input
    for v in ({"kind": "exit", "rc": 0, "stderr": ""}, {"kind": "exit", "rc": 1, "stderr": LINES[0] + "\n"}):
        for entry in ([], ["--json"]):
            yield {"g": "cli", "v": v, "entry": entry, "form": "valid", "pre": False, "pp": False, "noout": True}


def gen_fault(tier):
    for entry in ("lib", "conv"):
        for form in ("valid", "ext"):
            for vk in ({"kind": "exit", "rc": 0, "stderr": ""}, {"kind": "exit", "rc": 1, "stderr": LINES[0] + "\n"}):
                for k in range(0, 14):
                    yield {"g": "fault", "entry": entry, "form": form, "v": vk, "k": k}


SPACE = GenSpace({"lib": gen_lib, "conv": gen_conv, "cli": gen_cli, "fault": gen_fault}, chunk=24)
blocks = SPACE.blocks
expand = SPACE.expand


def required_outcomes(tier):
    return {"lib:accept", "lib:accept-stderr", "lib:reject", "lib:killed", "lib:absent", "lib:form-error", "conv:accept", "conv:reject",
            "cli:accept", "cli:reject", "cli:absent", "cli:skip", "cli:form-error", "fault:injected", "fault:beyond"}


# ------------------------------------------------------------------ execution ------------
class _Swap:
    def __init__(self, env):
        self.env = env

    def __enter__(self):
        self.path = os.environ.get("PATH")
        self.tmpdir = tempfile.tempdir
        self.envtmp = os.environ.get("TMPDIR")
        os.environ["PATH"] = self.env.path
        os.environ["TMPDIR"] = self.env.tmp
        tempfile.tempdir = self.env.tmp

    def __exit__(self, *a):
        os.environ["PATH"] = self.path
        tempfile.tempdir = self.tmpdir
        if self.envtmp is None:
            os.environ.pop("TMPDIR", None)
        else:
            os.environ["TMPDIR"] = self.envtmp


def direct(form, pp, path=None):
    """library result without validation: the reference for file contents (a path supplies the form id from its stem)"""
    import logging

    from pyxform.xls2xform import convert

    logging.getLogger("pyxform.xls2xform").setLevel(logging.WARNING)
    return convert(xlsform=path or FORMS[form], validate=False, pretty_print=pp)


def residue_viol(env, tag):
    r = env.tmp_residue()
    return [(f"tmp-residue:{tag}", f"{r}")] if r else []


def _ascii(sx):
    return "".join(c if ord(c) < 128 else "?" for c in sx)


def same_text(v, got, want):
    """byte scripts: the decoding of non-UTF-8 bytes is not fixed by the statement, their ASCII part is"""
    return _ascii(got) == _ascii(want) if v.get("loose") else got == want


def judge_lib_outcome(cls, v, exc, warnings, tag):
    """common part for the two in-process entry points: exception type / message / warnings"""
    from pyxform.validators.odk_validate import ODKValidateError

    viol = []
    if cls == "reject":
        if not isinstance(exc, ODKValidateError):
            viol.append((f"reject-not-raised:{tag}", f"got {type(exc).__name__ if exc else 'a result'}: {str(exc)[:150]}"))
        elif v["kind"] == "exit":
            want = "ODK Validate Errors:\n" + ref_clean(v["stderr"])
            if not same_text(v, str(exc), want):
                viol.append((f"reject-message:{tag}", f"want {want!r} got {str(exc)!r}"))
        elif "jarfile" not in str(exc):
            viol.append((f"reject-message:{tag}", f"corrupt jar: {str(exc)[:200]!r}"))
    elif cls == "absent":
        if not isinstance(exc, OSError) or "Java" not in str(exc):
            viol.append((f"absent-not-oserror:{tag}", f"got {type(exc).__name__ if exc else 'a result'}: {str(exc)[:150]}"))
    else:
        if exc is not None:
            viol.append((f"accept-raised:{tag}", f"{type(exc).__name__}: {str(exc)[:200]}"))
        else:
            vw = [w for w in warnings if w.startswith("ODK Validate") or "ODK Validate" in w]
            if cls == "accept" and vw:
                viol.append((f"accept-spurious-warning:{tag}", str(vw)[:200]))
            if cls == "accept-stderr" and not (len(vw) == 1 and same_text(v, vw[0], "ODK Validate Warnings:\n" + v["stderr"])):
                viol.append((f"accept-stderr-not-surfaced:{tag}", f"want stderr {v['stderr']!r} got {vw!r}"))
            if cls == "killed" and vw != ["Bad return code from ODK Validate."]:
                viol.append((f"killed-outcome:{tag}", str(vw)[:200]))
    return viol


def check_lib(case):
    from pyxform.errors import PyXFormError
    from pyxform.xls2xform import convert

    v, form, pp = case["v"], case["form"], case["pp"]
    env = Env(v)
    try:
        exc = res = None
        warnings = []
        with _Swap(env):
            try:
                res = convert(xlsform=FORMS[form], validate=True, pretty_print=pp, warnings=warnings)
            except BaseException as e:  # noqa: BLE001
                exc = e
        viol = residue_viol(env, "lib")
        inv = env.invocations()
        if form == "bad":
            if not isinstance(exc, PyXFormError):
                viol.append(("form-error-not-raised:lib", f"{type(exc).__name__ if exc else 'result'}"))
            if inv:
                viol.append(("validator-run-on-invalid-form:lib", str(inv)))
            return {"outcome": "lib:form-error", "nt": not viol, "viol": viol, "tr": 2}
        cls = expected_class(v)
        viol += judge_lib_outcome(cls, v, exc, warnings, "lib")
        if v["kind"] in ("exit", "kill") and inv != 1:
            viol.append(("validator-invocations:lib", f"{inv} != 1"))
        if res is not None:
            d = direct(form, pp)
            if res.xform != d.xform or res.itemsets != d.itemsets:
                viol.append(("validated-result-differs:lib", ""))
        return {"outcome": f"lib:{cls}", "nt": not viol and cls != "accept", "viol": viol, "tr": 2 + inv}
    finally:
        env.close()


def files_viol(env, out_path, wrote, pre, form, pp, tag, removed_ok=False):
    """output directory after the call"""
    viol = []
    items = os.path.join(os.path.dirname(out_path), "itemsets.csv")
    if wrote:
        d = direct(form, pp, env.xlsform)
        if not os.path.exists(out_path):
            viol.append((f"output-missing:{tag}", ""))
        else:
            with open(out_path, encoding="utf-8") as f:
                got = f.read()
            if got != d.xform:
                viol.append((f"output-differs-from-library-result:{tag}", f"{len(got)} vs {len(d.xform)} chars"))
        if (d.itemsets is not None) != os.path.exists(items):
            viol.append((f"itemsets-presence:{tag}", f"expected={d.itemsets is not None}"))
        elif d.itemsets is not None:
            with open(items, encoding="utf-8", newline="") as f:
                if f.read() != d.itemsets:
                    viol.append((f"itemsets-content:{tag}", ""))
    else:
        if os.path.exists(out_path):
            with open(out_path, encoding="utf-8") as f:
                got = f.read()
            if removed_ok:
                viol.append((f"output-not-removed:{tag}", got[:60]))
            elif not (pre and got == MARKER):
                viol.append((f"output-written-on-failure:{tag}", got[:60]))
        elif pre and not removed_ok:
            viol.append((f"pre-existing-output-removed:{tag}", ""))
        if os.path.exists(items):
            viol.append((f"itemsets-written-on-failure:{tag}", ""))
    return viol


def prepare_io(env, form, pre):
    direct("valid", False)  # (also lowers the CLI module's logger level in this worker)
    with open(env.xlsform, "w", encoding="utf-8") as f:
        f.write(FORMS[form])
    out_path = os.path.join(env.out, "result.xml")
    if pre:
        with open(out_path, "w", encoding="utf-8") as f:
            f.write(MARKER)
    return out_path


def check_conv(case):
    from pyxform.errors import PyXFormError
    from pyxform.xls2xform import xls2xform_convert

    v, form, pre, validate = case["v"], case["form"], case["pre"], case["validate"]
    env = Env(v)
    try:
        out_path = prepare_io(env, form, pre)
        exc = warnings = None
        with _Swap(env):
            try:
                warnings = xls2xform_convert(xlsform_path=env.xlsform, xform_path=out_path, validate=validate, pretty_print=False)
            except BaseException as e:  # noqa: BLE001
                exc = e
        viol = residue_viol(env, "conv")
        inv = env.invocations()
        if form == "bad":
            if not isinstance(exc, PyXFormError):
                viol.append(("form-error-not-raised:conv", f"{type(exc).__name__ if exc else 'result'}"))
            viol += files_viol(env, out_path, False, pre, form, False, "conv")
            return {"outcome": "conv:form-error", "nt": not viol, "viol": viol, "tr": 3}
        if not validate:
            if inv:
                viol.append(("validator-run-without-validate:conv", str(inv)))
            if exc is not None:
                viol.append(("accept-raised:conv", f"{type(exc).__name__}: {exc}"[:200]))
            viol += files_viol(env, out_path, exc is None, pre, form, False, "conv")
            return {"outcome": "conv:novalidate", "nt": not viol, "viol": viol, "tr": 3}
        cls = expected_class(v)
        viol += judge_lib_outcome(cls, v, exc, warnings or [], "conv")
        wrote = cls in ("accept", "accept-stderr", "killed")
        viol += files_viol(env, out_path, wrote, pre, form, False, "conv")
        return {"outcome": f"conv:{'accept' if wrote else cls}", "nt": not viol, "viol": viol, "tr": 3 + inv}
    finally:
        env.close()


def check_cli(case):
    v, entry, form, pre, pp = case["v"], case["entry"], case["form"], case["pre"], case["pp"]
    env = Env(v)
    try:
        out_path = prepare_io(env, form, pre)
        if case.get("noout"):
            out_path = os.path.join(env.d, "form.xml")
            argv = [env.xlsform]
        else:
            argv = [env.xlsform, out_path]
        cmd = [sys.executable, "-m", "pyxform.xls2xform", *argv, *entry, *(["--pretty_print"] if pp else [])]
        e = {"PATH": env.path, "TMPDIR": env.tmp, "PYTHONPATH": REPO, "PYTHONDONTWRITEBYTECODE": "1", "PYTHONHASHSEED": "0", "HOME": env.d,
             "LANG": "C.UTF-8", "PYTHONIOENCODING": "utf-8"}
        r = subprocess.run(cmd, env=e, cwd=env.d, capture_output=True, timeout=120)
        text = (r.stdout + r.stderr).decode("utf-8", "replace")
        viol = residue_viol(env, "cli")
        inv = env.invocations()
        is_json = "--json" in entry
        skip = "--skip_validate" in entry
        tag = "cli-json" if is_json else "cli"
        resp = None
        if is_json:
            for ln in text.splitlines():
                if ln.startswith('{"code"'):
                    resp = json.loads(ln)
            if resp is None:
                viol.append(("json-response-missing:cli-json", text[-200:]))
                return {"outcome": "cli:broken", "nt": False, "viol": viol, "tr": 3}
        if "Traceback" in text and not (form == "bad" and not is_json) and "during conversion" not in text:
            viol.append((f"traceback:{tag}", text[-300:]))
        if form == "bad":
            if inv:
                viol.append((f"validator-run-on-invalid-form:{tag}", str(inv)))
            if is_json and (resp["code"] != 999 or "zz" not in str(resp["message"])):
                viol.append(("form-error-code:cli-json", str(resp)[:200]))
            if not is_json and r.returncode == 0 and "zz" not in text:
                viol.append(("form-error-not-reported:cli", text[-200:]))
            viol += files_viol(env, out_path, False, pre, form, pp, tag)
            return {"outcome": "cli:form-error", "nt": not viol, "viol": viol, "tr": 3}
        if skip:
            if inv:
                viol.append((f"validator-run-under-skip_validate:{tag}", str(inv)))
            if is_json and (resp["code"] != 100 or resp["warnings"]):
                viol.append(("skip-code:cli-json", str(resp)[:200]))
            viol += files_viol(env, out_path, True, pre, form, pp, tag)
            return {"outcome": "cli:skip", "nt": not viol, "viol": viol, "tr": 3}
        cls = expected_class(v)
        if v["kind"] in ("exit", "kill") and inv != 1:
            viol.append((f"validator-invocations:{tag}", f"{inv} != 1"))
        if cls == "reject":
            want = ("ODK Validate Errors:\n" + ref_clean(v["stderr"])) if v["kind"] == "exit" else None
            if is_json:
                if resp["code"] != 999:
                    viol.append(("reject-code:cli-json", str(resp)[:200]))
                elif want is not None and not same_text(v, resp["message"], want):
                    viol.append(("reject-message:cli-json", f"want {want!r} got {resp['message']!r}"))
                viol += files_viol(env, out_path, False, pre, form, pp, tag)
            else:
                if "ODKValidateError during conversion" not in text:
                    viol.append(("reject-not-logged:cli", text[-200:]))
                if "Conversion complete" in text:
                    viol.append(("reject-reported-as-success:cli", ""))
                viol += files_viol(env, out_path, False, pre, form, pp, tag, removed_ok=True)
            return {"outcome": "cli:reject", "nt": not viol, "viol": viol, "tr": 3 + inv}
        if cls == "absent":
            if is_json:
                if resp["code"] != 999 or "Java" not in str(resp["message"]):
                    viol.append(("absent-code:cli-json", str(resp)[:200]))
            else:
                if "EnvironmentError during conversion" not in text or "Conversion complete" in text:
                    viol.append(("absent-not-logged:cli", text[-200:]))
            viol += files_viol(env, out_path, False, pre, form, pp, tag)
            return {"outcome": "cli:absent", "nt": not viol, "viol": viol, "tr": 3}
        # accept / accept-stderr / killed
        wantw = [] if cls == "accept" else ["ODK Validate Warnings:\n" + v["stderr"]] if cls == "accept-stderr" else ["Bad return code from ODK Validate."]
        if is_json:
            code = 101 if wantw else 100
            if resp["code"] != code or len(resp["warnings"]) != len(wantw) or not all(same_text(v, a, b) for a, b in zip(resp["warnings"], wantw)):
                viol.append(("accept-code-or-warnings:cli-json", f"want {code} {wantw!r} got {str(resp)[:200]}"))
        else:
            if "Conversion complete!" not in text:
                viol.append(("accept-not-reported:cli", text[-200:]))
            for w in wantw:
                if w.strip() and _ascii(w.strip().splitlines()[-1]).strip("?") not in _ascii(text):
                    viol.append(("accept-warning-not-logged:cli", f"{w!r}"))
        viol += files_viol(env, out_path, True, pre, form, pp, tag)
        return {"outcome": "cli:accept", "nt": not viol and bool(wantw), "viol": viol, "tr": 3 + inv}
    finally:
        env.close()


# ------------------------------------------------------------------ I/O faults ----------
class Injector:
    """counts I/O operations on paths under the case directory and fails the k-th one with OSError"""

    def __init__(self, root, k):
        self.root, self.k, self.n, self.fired = os.path.realpath(root), k, 0, None

    def hit(self, what, path):
        try:
            p = os.path.realpath(os.fspath(path))
        except TypeError:
            return
        if not p.startswith(self.root):
            return
        i = self.n
        self.n += 1
        if i == self.k:
            self.fired = f"{what}:{os.path.relpath(p, self.root).split(os.sep)[0]}"
            raise OSError(28, f"injected fault #{i} at {what}")


class _FaultyFile:
    def __init__(self, f, inj, path):
        self._f, self._inj, self._p = f, inj, path

    def write(self, data):
        self._inj.hit("write", self._p)
        return self._f.write(data)

    def __getattr__(self, a):
        return getattr(self._f, a)

    def __enter__(self):
        self._f.__enter__()
        return self

    def __exit__(self, *a):
        return self._f.__exit__(*a)

    def __iter__(self):
        return iter(self._f)


def check_fault(case):
    from pyxform.xls2xform import convert, xls2xform_convert

    env = Env(case["v"])
    try:
        out_path = prepare_io(env, case["form"], False)
        inj = Injector(env.d, case["k"])
        real_open, real_unlink, real_os_unlink, real_ntf = builtins.open, pathlib.Path.unlink, os.unlink, tempfile.NamedTemporaryFile

        def f_open(file, mode="r", *a, **kw):
            if isinstance(file, (str, bytes, os.PathLike)) and any(c in mode for c in "wax+"):
                inj.hit("open-w", file)
                return _FaultyFile(real_open(file, mode, *a, **kw), inj, file)
            return real_open(file, mode, *a, **kw)

        def f_unlink(self, *a, **kw):
            inj.hit("unlink", self)
            return real_unlink(self, *a, **kw)

        def f_os_unlink(p, *a, **kw):
            inj.hit("unlink", p)
            return real_os_unlink(p, *a, **kw)

        def f_ntf(*a, **kw):
            inj.hit("mktemp", os.path.join(env.tmp, "x"))
            return real_ntf(*a, **kw)

        exc = None
        with _Swap(env):
            builtins.open, pathlib.Path.unlink, os.unlink, tempfile.NamedTemporaryFile = f_open, f_unlink, f_os_unlink, f_ntf
            try:
                if case["entry"] == "lib":
                    convert(xlsform=FORMS[case["form"]], validate=True, pretty_print=False)
                else:
                    xls2xform_convert(xlsform_path=env.xlsform, xform_path=out_path, validate=True, pretty_print=False)
            except BaseException as e:  # noqa: BLE001
                exc = e
            finally:
                builtins.open, pathlib.Path.unlink, os.unlink, tempfile.NamedTemporaryFile = real_open, real_unlink, real_os_unlink, real_ntf
        if inj.fired is None:
            return {"outcome": "fault:beyond", "nt": False, "viol": residue_viol(env, "nofault"), "tr": inj.n, "key": ["beyond", case["entry"], case["form"], case["v"]["rc"]]}
        viol = []
        if exc is None:
            viol.append((f"fault-swallowed:{inj.fired}", "the injected OSError did not surface and was not reported"))
        elif not isinstance(exc, OSError) and type(exc).__name__ != "ODKValidateError":
            viol.append((f"fault-wrong-exception:{inj.fired}", f"{type(exc).__name__}: {exc}"[:200]))
        if not inj.fired.startswith("unlink:tmp"):
            # a failure of the clean-up call itself cannot clean up; every other fault must leave TMPDIR empty
            viol += residue_viol(env, f"fault:{inj.fired}")
        return {"outcome": "fault:injected", "nt": not viol, "viol": viol, "tr": inj.n, "extra": {f"fault@{inj.fired}": 1}}
    finally:
        env.close()


def check_one(case):
    return {"lib": check_lib, "conv": check_conv, "cli": check_cli, "fault": check_fault}[case["g"]](case)
