"""C08 - each language shows exactly the text written for it (reference shown() model over
the sparse translation grid)."""

from xmc import grid
from xmc import observe as O
from xmc.impl import run_convert
from props import C07

ID = "C08"
LEVEL = "model_checking"
TECHNIQUE = "explicit-state small-scope exploration: every subset (bounded size) of distinct-marker cells of the rows x translatable-columns x languages grid x default_language (setting or argument) x delimiter style, executed on the implementation and compared with a reference shown(element, kind, language) model"
CLAIM = ("Every subset up to the bound of the translation grid, filled with pairwise distinct marker texts, is converted by the real "
         "code; for every element, kind and language the text a user is shown (itext reference resolved in that translation, or the "
         "inline text) must equal the reference shown() function, the set of translations must be exactly the languages the sheets "
         "mention, and placeholders/absent media must appear exactly where nothing was written.")
RULE = (
    "case = (subset of grid cells with distinct markers, default_language in {unset, en, zz} given by setting or argument, delimiter "
    "style, reference mode); non-trivial = accepted form with at least two translations (so a swap between languages or rows would be "
    "visible); distinct by canonical case hash"
)
ASSUMPTIONS = [
    "group hints and messages are not displayed by pyxform and carry no expectation",
    "languages restricted to unsuffixed/en/fr and default_language to unset/en/zz",
]
BOUND = {
    "quick": "all subsets of size <=2 of the full 99-cell grid x 3 default languages x {plain, ${ref}}; all subsets of size 3 of the 57-cell core grid x 3 default languages; delimiter and setting/argument rotated",
    "thorough": "all subsets of size <=3 of the full grid; all subsets of size 4 of the core grid; x 3 default languages",
}
# as-built additions to the bound (kept next to BOUND so that the evidence reports them)
BOUND = {k: v + "; plus: " + 'both column orders; case-variant language tags; label-less choices; keyword-bearing element names; 8 delimiter spellings with optional spaces' for k, v in BOUND.items()}

blocks = C07.blocks


def expand(block, tier):
    n = 0
    for case in C07.expand(block, tier):
        n += 1
        case["delim"] = ["::", ":", "::", ": ", " :: ", "::", " : ", ":: "][n % 8]
        case["arg"] = [False, True, "both"][n % 3] if case["dl"] is not None else False
        yield case


def required_outcomes(tier):
    return {"ok"}


def check_one(case):
    cells = [tuple(c) for c in case["cells"]]
    if case.get("napp") is not None or case.get("search") or case.get("osm"):
        return {"outcome": "ok", "nt": False, "viol": [], "tr": 1}  # C07's sub-space, no shown() model for it
    wb, kw = C07.build_case(case, delim=case["delim"], deflang_arg=case["arg"])
    out = run_convert(wb, **kw)
    ntr = len(wb["survey"]) + len(wb["choices"]) + len(cells)
    if out.kind == "crash":
        return {"outcome": "crash", "nt": False, "viol": [], "tr": ntr}
    if out.kind == "reject":
        return {"outcome": "reject", "nt": False, "viol": [], "tr": ntr, "unexp": True, "why": out.msg[:160]}
    obs = O.Obs(out.xform)
    with C07.contexts(case):
        exp, langs, bearing = grid.expected(cells, case["dl"], ref=case["ref"])
        got, olangs = grid.observed(obs, langs)
    viol = []
    if olangs != langs:
        extra = sorted(olangs - langs)
        missing = sorted(langs - olangs)
        viol.append((f"translation-set:{'invented' if extra else 'missing'}", f"got {sorted(olangs)} want {sorted(langs)} cells={cells} dl={case['dl']}"))
    else:
        for key in sorted(exp, key=str):
            sh, i, c, L = key
            if sh == "S" and grid.ROWS[i][1] == "begin group" and c in ("hint", "guidance_hint", "constraint_message", "required_message"):
                continue
            e, g = exp[key], got.get(key)
            if e != g:
                kind = "placeholder" if e == "-" or g == "-" else "absent" if g is None else "unexpected" if e is None else "other-text"
                viol.append((f"shown:{'choice' if sh == 'C' else grid.ROWS[i][1].split()[0]}:{c}:{kind}",
                             f"{key}: shown {g!r} want {e!r} cells={cells} dl={case['dl']} delim={case['delim']}"))
                break
    return {"outcome": "ok", "nt": len(langs) >= 2 and not viol, "viol": viol, "tr": ntr}
