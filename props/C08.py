"""C08 - each language shows exactly the text written for it (reference shown() model over
the sparse translation grid)."""

from xmc import grid
from xmc import observe as O
from xmc.impl import run_convert
from props import C07

ID = "C08"
LEVEL = "model_checking"
TECHNIQUE = "explicit-state small-scope exploration: every subset (bounded size) of distinct-marker cells of the rows x translatable-columns x languages grid x default_language (setting or argument) x delimiter style, executed on the implementation and compared with a reference shown(element, kind, language) model"
CLAIM = ("Every subset up to the bound of the translation grid, filled with pairwise distinct marker texts, is converted by the real "
         "code; for every element, kind and language the text a user is shown (itext reference resolved in that translation, or the "
         "inline text) must equal the reference shown() function, the set of translations must be exactly the languages the sheets "
         "mention, and placeholders/absent media must appear exactly where nothing was written.")
RULE = (
    "case = (subset of grid cells with distinct markers, default_language in {unset, en, zz} given by setting or argument, delimiter "
    "style, reference mode); non-trivial = accepted form with at least two translations (so a swap between languages or rows would be "
    "visible); distinct by canonical case hash"
)
ASSUMPTIONS = [
    "group hints and messages are not displayed by pyxform and carry no expectation",
    "languages restricted to unsuffixed/en/fr and default_language to unset/en/zz",
]
BOUND = {
    "quick": "all subsets of size <=2 of the full 99-cell grid x 3 default languages x {plain, ${ref}}; all subsets of size 3 of the 57-cell core grid x 3 default languages; delimiter and setting/argument rotated",
    "thorough": "all subsets of size <=3 of the full grid; all subsets of size 4 of the core grid; x 3 default languages",
}
# as-built additions to the bound (kept next to BOUND so that the evidence reports them)
BOUND = {k: v + "; plus: " + 'other row kinds and two-list forms of C07 with a text-for-its-own-cell oracle; both column orders; case-variant language tags; label-less choices; keyword-bearing element names; 8 delimiter spellings with optional spaces' for k, v in BOUND.items()}

def blocks(tier):
    # C07's corpus blocks check its own invariant only (there is no written-text model of arbitrary workbooks here)
    yield from (b for b in C07.blocks(tier) if b[0] != "corpus")
    yield ("loop",)


LOOP_LANGS = [("en", "fr"), ("en",), ("fr", "en", "de")]
LOOP_CELLS = ["label", "hint"]  # (placeholders in a translated constraint_message are left as written by the pinned tree: legacy corner, not judged)



def expand(block, tier):
    if block[0] == "loop":
        # legacy loops over a translated list: %(label)s / %(name)s in the translated cells of a looped row are filled in per copy and per language
        import itertools

        for langs in LOOP_LANGS:
            for nch in (1, 2, 3):
                for r in (1, 2, 3):
                    for cells in itertools.combinations(LOOP_CELLS, r):
                        for ph in ("label", "name", "both"):
                            yield {"loop": {"langs": list(langs), "n": nch, "cells": list(cells), "ph": ph}, "dl": None, "cells": [], "delim": "::", "arg": False}
        return
    n = 0
    for case in C07.expand(block, tier):
        if (case.get("free") or {}).get("blank") is not None:
            continue  # blank-only cells belong to C07's closure invariant (nothing is written, so there is no text to show)
        n += 1
        case["delim"] = ["::", ":", "::", ": ", " :: ", "::", " : ", ":: "][n % 8]
        case["arg"] = [False, True, "both"][n % 3] if case["dl"] is not None else False
        yield case


def required_outcomes(tier):
    return {"ok"}


def check_free(case):
    """forms outside the grid: what is shown for an (element, kind, language) is the text written for exactly that cell -
    a placeholder or nothing where no text was written, never another cell's text"""
    f = case["free"]
    wb = C07.build_free(case)
    out = run_convert(wb)
    ntr = len(wb["survey"]) + len(wb["choices"])
    if out.kind != "ok":
        return {"outcome": out.kind, "nt": False, "viol": [], "tr": ntr}
    obs = O.Obs(out.xform)
    itx = {}
    for lang, d, texts in obs.itext:
        tab = itx.setdefault(lang, {})
        for tid, vals in texts:
            tab[tid] = {form: el for form, el in vals}
    viol = []

    def shown(tid, L, form=None):
        e = itx.get(L, {}).get(tid, {}).get(form)
        return None if e is None else grid.render_value(e)

    if f["k"] == "lists":
        insts = {i: el for i, _, el in obs.secondary_instances()}
        for ln, states in (("c", f["c"]), ("d", f["d"])):
            inst = insts.get(ln)
            items = inst.find(O.X + "root").findall(O.X + "item") if inst is not None else []
            if len(items) != len(states):
                viol.append((f"free-lists:item-count:{ln}", f"{len(items)} != {len(states)}"))
                continue
            for i, (it, stt) in enumerate(zip(items, states)):
                iid = it.find(O.X + "itextId")
                for L in ("en", "fr"):
                    want = f"{ln}{i}.{L}" if (stt == "tr" or (stt == "en" and L == "en")) else None
                    if iid is None:
                        lab = it.find(O.X + "label")
                        got = lab.text if lab is not None else None
                    else:
                        got = shown(iid.text, L)
                    ok = got == want if want is not None else got in (None, "-", "")
                    if not ok:
                        viol.append((f"free-lists:shown:{'placeholder-over-text' if got == '-' else 'other-text' if got else 'absent'}:{ln}:{stt}",
                                     f"choice {ln}{i} [{L}]: shown {got!r} want {want!r} lists c={f['c']} d={f['d']} order={f['order']}"))
        return {"outcome": "ok", "nt": not viol, "viol": viol[:3], "tr": ntr}
    # one row of another kind: messages (bind) and label / hint (control, if the row has one)
    cells = {(c, l) for c, l in f["cells"]}
    langs = {l for _, l in cells if l} | ({"en", "fr"} if f["extra"] else set())
    sfx = lambda c: " ${inner}" if (case["ref"] and c in ("label", "hint", "constraint_message", "required_message")) else ""  # noqa: E731
    kp = {"ns-text": "/data/ex:k", "ns-group": "/data/ex:g/k", "ns-repeat-select": "/data/ex:r/ex:k"}.get(f["rk"], "/data/k")
    b = obs.bind_map().get(kp, [None])[0]
    ctrl = next((el for el, tag, ref, anc in obs.body_controls() if ref == kp), None)
    for c, attr in (("constraint_message", O.J + "constraintMsg"), ("required_message", O.J + "requiredMsg")):
        if not any(cc == c for cc, _ in cells):
            continue
        v = b.get(attr) if b is not None else None
        tid = O.itext_id(v)
        for L in (langs or {None}):
            want = f"k.{c}.{L}{sfx(c)}" if (c, L) in cells else None
            if tid is None:
                got = v
                if (c, "") in cells and not langs:
                    want = f"k.{c}.0{sfx(c)}"
                elif want is None:
                    continue
            else:
                got = shown(tid, L)
            if want is not None and got != want:
                viol.append((f"free-row:message-shown:{f['rk']}:{c}", f"[{L}] shown {got!r} want {want!r} cells={sorted(cells)}"))
            elif want is None and got not in (None, "-") and not (got == f"k.{c}.0{sfx(c)}"):
                viol.append((f"free-row:message-other-text:{f['rk']}:{c}", f"[{L}] shown {got!r}, nothing written for it; cells={sorted(cells)}"))
    if ctrl is not None:
        for c, tagname in (("label", "label"), ("hint", "hint")):
            el = ctrl.find(O.X + tagname)
            if el is None:
                continue
            tid = O.itext_id(el.get("ref"))
            for L in (langs or {None}):
                want = f"k.{c}.{L}{sfx(c)}" if (c, L) in cells else None
                got = shown(tid, L) if tid is not None else grid.render_value(el)
                if want is not None and tid is not None and got != want:
                    viol.append((f"free-row:{c}-shown:{f['rk']}", f"[{L}] shown {got!r} want {want!r} cells={sorted(cells)}"))
                elif want is None and tid is not None and got not in (None, "-") and got != f"k.{c}.0{sfx(c)}":
                    viol.append((f"free-row:{c}-other-text:{f['rk']}", f"[{L}] shown {got!r}, nothing written for it; cells={sorted(cells)}"))
    return {"outcome": "ok", "nt": bool(cells) and not viol, "viol": viol[:3], "tr": ntr}


def check_loop(case):
    lp = case["loop"]
    langs = lp["langs"]
    names = ["x", "y", "z"][:lp["n"]]
    choices = [{"list_name": "c", "name": n_, **{f"label::{L}": f"{n_.upper()}-{L}" for L in langs}} for n_ in names]
    ph = {"label": "%(label)s", "name": "%(name)s", "both": "%(label)s / %(name)s"}[lp["ph"]]
    q = {"type": "integer", "name": "k", "constraint": ". > 0"}
    for c in ("label", *[c_ for c_ in lp["cells"] if c_ != "label"]):
        for L in langs:
            q[f"{c}::{L}"] = f"{c}.{L} {ph} end" if c in lp["cells"] else f"{c}.{L}"
    wb = {"survey": [{"type": "begin loop over c", "name": "w", **{f"label::{L}": f"W-{L}" for L in langs}}, q, {"type": "end loop"}], "choices": choices}
    out = run_convert(wb)
    ntr = 3 + len(choices)
    if out.kind != "ok":
        return {"outcome": out.kind, "nt": False, "viol": [], "tr": ntr, "unexp": out.kind == "reject", "why": (out.msg or "")[:160]}
    obs = O.Obs(out.xform)
    itx = {}
    for lang, d, texts in obs.itext:
        tab = itx.setdefault(lang, {})
        for tid, vals in texts:
            tab[tid] = {form: el for form, el in vals}
    viol = []
    for n_ in names:
        kp = f"/data/w/{n_}/k"
        ctrl = next((el for el, tag, ref, anc in obs.body_controls() if ref == kp), None)
        b = obs.bind_map().get(kp, [None])[0]
        for c in lp["cells"]:
            if c == "constraint_message":
                tid = O.itext_id(b.get(O.J + "constraintMsg")) if b is not None else None
            else:
                el = ctrl.find(O.X + c) if ctrl is not None else None
                tid = O.itext_id(el.get("ref")) if el is not None else None
            for L in langs:
                want = f"{c}.{L} " + {"label": f"{n_.upper()}-{L}", "name": n_, "both": f"{n_.upper()}-{L} / {n_}"}[lp["ph"]] + " end"
                e = itx.get(L, {}).get(tid, {}).get(None) if tid else None
                got = None if e is None else grid.render_value(e)
                if got != want:
                    viol.append((f"loop-copy-shown:{c}:{lp['ph']}", f"copy for choice {n_!r} [{L}]: shown {got!r} want {want!r}"))
    return {"outcome": "ok", "nt": len(langs) > 1 and not viol, "viol": viol[:3], "tr": ntr}


def check_one(case):
    if case.get("loop"):
        return check_loop(case)
    if case.get("api"):
        return {"outcome": "ok", "nt": False, "viol": [], "tr": 1}  # C07's sub-space
    if case.get("free"):
        return check_free(case)
    cells = [tuple(c) for c in case["cells"]]
    if case.get("napp") is not None or case.get("search") or case.get("osm"):
        return {"outcome": "ok", "nt": False, "viol": [], "tr": 1}  # C07's sub-space, no shown() model for it
    wb, kw = C07.build_case(case, delim=case["delim"], deflang_arg=case["arg"])
    out = run_convert(wb, **kw)
    ntr = len(wb["survey"]) + len(wb["choices"]) + len(cells)
    if out.kind == "crash":
        return {"outcome": "crash", "nt": False, "viol": [], "tr": ntr}
    if out.kind == "reject":
        return {"outcome": "reject", "nt": False, "viol": [], "tr": ntr, "unexp": True, "why": out.msg[:160]}
    obs = O.Obs(out.xform)
    with C07.contexts(case):
        exp, langs, bearing = grid.expected(cells, case["dl"], ref=case["ref"])
        got, olangs = grid.observed(obs, langs)
    viol = []
    if olangs != langs:
        extra = sorted(olangs - langs)
        missing = sorted(langs - olangs)
        viol.append((f"translation-set:{'invented' if extra else 'missing'}", f"got {sorted(olangs)} want {sorted(langs)} cells={cells} dl={case['dl']}"))
    else:
        for key in sorted(exp, key=str):
            sh, i, c, L = key
            if sh == "S" and grid.ROWS[i][1] == "begin group" and c in ("hint", "guidance_hint", "constraint_message", "required_message"):
                continue
            e, g = exp[key], got.get(key)
            if e != g:
                kind = "placeholder" if e == "-" or g == "-" else "absent" if g is None else "unexpected" if e is None else "other-text"
                viol.append((f"shown:{'choice' if sh == 'C' else grid.ROWS[i][1].split()[0]}:{c}:{kind}",
                             f"{key}: shown {g!r} want {e!r} cells={cells} dl={case['dl']} delim={case['delim']}"))
                break
    return {"outcome": "ok", "nt": len(langs) >= 2 and not viol, "viol": viol, "tr": ntr}

# as-built additions of the seventh wave (reported with the bound in the evidence)
BOUND = {k: v + "; seventh wave: " + 'legacy loops over lists in 1-3 languages with %(label)s / %(name)s in translated label / hint cells' for k, v in BOUND.items()}
