"""C17 - broken forms are rejected with a located diagnosis; nothing ever crashes.

Three exhaustive parts (DESIGN.md section 4, C17):
  seq  every row sequence over {question, begin/end group, begin/end repeat, blank} up to a
       length bound, against a reference pushdown automaton that predicts accept / the row of
       the first unmatched end / the unmatched begin's name;
  cat  every catalogued breaking mutation applied at every site of every base layout, with
       0..k blank rows inserted above the offending row (row-number arithmetic);
  voc  vocabulary space: one-row, two-row and three-row surveys over per-slot vocabularies
       (valid and malformed types, names, one extra cell, choices-sheet variants, contexts);
       the only admissible outcomes are a result or PyXFormError.
"""

import itertools
import re

from xmc import render
from xmc.impl import run_convert
from xmc.spaces import flatten, forests_upto
from props.C03 import forest_from_json, forest_to_json

ID = "C17"
LEVEL = "model_checking"
TECHNIQUE = ("explicit-state small-scope exploration of the row state machine: all begin/end/question/blank row sequences up to a length bound "
             "checked against a reference pushdown automaton, every catalogued breaking mutation x every site x blank-row offsets, and the "
             "complete product of per-slot vocabularies for 1-3 row surveys, each executed on the implementation; outcome must be a result or "
             "PyXFormError with the predicted row citation")
CLAIM = ("Every row sequence up to the bound, every (layout, catalogue mutation, site, blank-row offset) and every vocabulary combination is "
         "converted by the real code. A broken form must be refused with PyXFormError (never accepted, never another exception type), the message "
         "must name the offending name/list/value where the statement says so, and row-located errors must cite [row : N] with N the spreadsheet "
         "row of the offending row; for arbitrary vocabulary input the only outcomes are a result or PyXFormError.")
RULE = (
    "case = a row sequence | (forest, mutation, site, blanks) | a vocabulary tuple; non-trivial = a broken form that was refused with the "
    "predicted located diagnosis, or a vocabulary case containing at least one malformed slot that ended in a result or PyXFormError; "
    "distinct by canonical case hash"
)
ASSUMPTIONS = [
    "row numbers: header = row 1, first data row = row 2, blank rows count (dict input with empty row dicts; md for header-level mutations)",
    "row citation is demanded only for entries flagged row-located in the frozen catalogue (errors raised by the row loop / sheet validators); "
    "for the others only type, non-emptiness, naming and 'if a row is cited it is the right one' are checked",
]
BOUND = {
    "quick": "seq: all sequences of length <=5 over 6 symbols; cat: L(3,3) x catalogue x every site x blanks 0..1; voc: one-row product (reduced pairing), two-row type x type x 5 contexts",
    "thorough": "seq: length <=6; cat: L(4,3) x catalogue x every site x blanks 0..2; voc: full one-row product, two-row with one deviating slot, three-row malformed x representative",
}
# as-built additions to the bound (kept next to BOUND so that the evidence reports them)
BOUND = {k: v + "; plus: " + 'select-like types x list-affecting cells x 10 choices-sheet variants (also inside a table-list group); 16 candidate names for the form itself (settings name / form_id, form_name argument) and for loop-built groups; alias / canonical header pairs in both column orders (survey, settings); a markdown row wider than its header; table-list groups around from-file / reference-built lists; a search() list shared with a randomize select; jr and flat headers; catalogue entries for entity save_to errors and for errors that depend on earlier rows; survey / choices column headers equal to internal keys; osm sheet variants' for k, v in BOUND.items()}

NAMES = ["a", "b", "d", "e", "f", "g"]
CHOICES = [{"list_name": "c", "name": "x", "label": "X"}, {"list_name": "c", "name": "y", "label": "Y"}]
ROW_RE = re.compile(r"\[row : (\d+)\]")

# ----------------------------------------------------------------------------- seq ------
SYMS = ["q", "bg", "br", "eg", "er", "bl"]


def seq_rows(seq):
    rows = []
    for i, s in enumerate(seq):
        nm = f"n{i}"
        if s == "q":
            rows.append({"type": "text", "name": nm, "label": nm})
        elif s == "bg":
            rows.append({"type": "begin group", "name": nm, "label": nm})
        elif s == "br":
            rows.append({"type": "begin repeat", "name": nm, "label": nm})
        elif s == "eg":
            rows.append({"type": "end group"})
        elif s == "er":
            rows.append({"type": "end repeat"})
        else:
            rows.append({})
    return rows


def seq_model(seq):
    """reference pushdown automaton -> ("ok",) | ("end", row) | ("begin", name)"""
    stack = []
    for i, s in enumerate(seq):
        if s in ("bg", "br"):
            stack.append((s[1], f"n{i}"))
        elif s in ("eg", "er"):
            if not stack or stack[-1][0] != s[1]:
                return ("end", i + 2)
            stack.pop()
    if stack:
        return ("begin", stack[-1][1])
    if not any(s == "q" for s in seq) and not any(s in ("bg", "br") for s in seq):
        return ("empty",)
    return ("ok",)


def gen_seq(tier):
    n = 5 if tier == "quick" else 6
    for k in range(1, n + 1):
        for seq in itertools.product(SYMS, repeat=k):
            if seq[-1] == "bl":
                continue  # a trailing blank row is not a different sheet
            yield {"g": "seq", "seq": list(seq)}


def check_seq(case):
    seq = case["seq"]
    exp = seq_model(seq)
    wb = {"survey": seq_rows(seq)}
    out = run_convert(wb)
    viol = []
    nt = False
    if out.kind == "crash":
        viol.append((f"internal-exception:{out.exc}:{out.where}", f"{out.msg} seq={seq}"))
    elif exp[0] == "ok":
        if out.kind != "ok":
            return {"outcome": "seq-unexpected-reject", "nt": False, "viol": [], "unexp": True, "why": out.msg[:200], "tr": len(seq)}
    elif exp[0] == "empty":
        pass  # a survey with no question at all: either outcome is admissible
    else:
        if out.kind == "ok":
            viol.append((f"accepted:unbalanced-{exp[0]}", f"model={exp} seq={seq}"))
        else:
            cited = [int(x) for x in ROW_RE.findall(out.msg)]
            if exp[0] == "end":
                if "nmatched end" not in out.msg:
                    viol.append(("wrong-diagnosis:unmatched-end", f"model={exp} msg={out.msg[:200]}"))
                elif cited != [exp[1]]:
                    viol.append(("wrong-row:unmatched-end", f"model={exp} cited={cited} msg={out.msg[:200]}"))
                else:
                    nt = True
            else:
                if "nmatched begin" not in out.msg or exp[1] not in re.findall(r"\w+", out.msg):
                    viol.append(("wrong-diagnosis:unmatched-begin", f"model={exp} msg={out.msg[:200]}"))
                else:
                    nt = True
    return {"outcome": f"seq-{exp[0]}-{out.kind}", "nt": nt, "viol": viol, "tr": len(seq)}


# ----------------------------------------------------------------------------- cat ------
LEAF = [
    lambda nm: {"type": "text", "name": nm, "label": nm},
    lambda nm: {"type": "select_one c", "name": nm, "label": nm},
    lambda nm: {"type": "integer", "name": nm, "label": nm},
    lambda nm: {"type": "calculate", "name": nm, "calculation": "1 + 1"},
]


def base(forest):
    """rows (each carrying '_n' = node index on begin/question rows, '_e' on end rows) and nodes"""
    nodes = flatten(forest, NAMES)
    rows = []
    ctr = [0]

    def rec(f):
        for t in f:
            i = ctr[0]
            ctr[0] += 1
            nm = NAMES[i]
            if t[0] == "q":
                rows.append({**LEAF[i % len(LEAF)](nm), "_n": i})
            else:
                kind = "group" if t[0] == "g" else "repeat"
                rows.append({"type": f"begin {kind}", "name": nm, "label": nm, "_n": i})
                rec(t[1])
                rows.append({"type": f"end {kind}", "_e": i})

    rec(forest)
    return rows, nodes


def _row_of(rows, i):
    return next(k for k, r in enumerate(rows) if r.get("_n") == i)


def _siblings(nodes, i):
    return [n["i"] for n in nodes if n["parent"] == nodes[i]["parent"] and n["i"] != i]


class Skip(Exception):
    pass


def E(row=None, located=False, named=(), sheet="survey", any_row=False, phrase=None):
    return {"row": row, "located": located, "named": list(named), "sheet": sheet, "any_row": any_row, "phrase": phrase}


# every mutator: (rows, nodes, i, choices) -> (expectation, extra_sheets | None); edits rows/choices in place
def m_invalid_name(bad):
    def f(rows, nodes, i, ch):
        k = _row_of(rows, i)
        rows[k]["name"] = bad
        return E(k, True, [bad], phrase="nvalid question name")
    return f


def m_no_name(rows, nodes, i, ch):
    k = _row_of(rows, i)
    del rows[k]["name"]
    return E(k, True, phrase="with no name")


def m_dup_name(variant):
    def f(rows, nodes, i, ch):
        sib = _siblings(nodes, i)
        if not sib:
            raise Skip
        k = _row_of(rows, i)
        other = nodes[sib[0]]["name"]
        rows[k]["name"] = other if variant == "eq" else other.upper()
        return E(k, False, [other])
    return f


def m_no_type(rows, nodes, i, ch):
    k = _row_of(rows, i)
    if nodes[i]["kind"] != "q" or len(rows) == 1:
        raise Skip  # with a single row the 'type' header itself would vanish: a different (header) error
    del rows[k]["type"]
    return E(k, True, phrase="no type")


def m_type(newtype, named=(), located=False, phrase=None, only="q", extra=None):
    def f(rows, nodes, i, ch):
        if nodes[i]["kind"] != only:
            raise Skip
        k = _row_of(rows, i)
        rows[k]["type"] = newtype
        rows[k].pop("calculation", None)
        if extra:
            rows[k].update(extra)
        return E(k, located, named, phrase=phrase)
    return f


def m_calc_without(rows, nodes, i, ch):
    if nodes[i]["kind"] != "q":
        raise Skip
    k = _row_of(rows, i)
    rows[k]["type"] = "calculate"
    rows[k].pop("calculation", None)
    rows[k].pop("label", None)
    return E(k, True, phrase="issing calculation")


REF_COLS_ALL = ["relevant", "constraint", "required", "read_only", "calculation", "default", "label", "hint",
                "constraint_message", "required_message", "trigger", "choice_filter", "repeat_count", "guidance_hint"]


def _col_ok(col, row):
    t = row["type"]
    if col == "choice_filter":
        return t.startswith("select_one")
    if col == "repeat_count":
        return t == "begin repeat"
    if col == "calculation":
        return t in ("calculate", "text", "integer")
    if col in ("label", "hint") and t == "calculate":
        # a calculate row has no body control: its label / hint cells produce nothing, so there is no reference to resolve
        return False
    if col in ("default", "constraint", "constraint_message", "required", "required_message", "trigger", "read_only",
               "hint", "guidance_hint"):
        # group/repeat rows do not consume these cells at all (nothing is generated from them)
        return not t.startswith("begin")
    return True


def m_ref(col, text, named, located, phrase=None):
    def f(rows, nodes, i, ch):
        k = _row_of(rows, i)
        if not _col_ok(col, rows[k]):
            raise Skip
        rows[k][col] = text
        return E(k, located, named, phrase=phrase)
    return f


def m_ref_dup(col, copies=2):
    """${z} where z names `copies` questions in different sections"""
    def f(rows, nodes, i, ch):
        k = _row_of(rows, i)
        if not _col_ok(col, rows[k]):
            raise Skip
        rows.insert(0, {"type": "text", "name": "z", "label": "z"})
        for c in range(1, copies):
            rows.extend([{"type": "begin group", "name": f"zg{c}", "label": "zg"}, {"type": "text", "name": "z", "label": "z"}, {"type": "end group"}])
        rows[k + 1][col] = "${z} = 1" if col != "trigger" else "${z}"  # (a trigger cell holds exactly one reference)
        return E(k + 1, False, ["z"])
    return f


def m_param(newtype, params, located, named=(), phrase=None, extra=None):
    def f(rows, nodes, i, ch):
        if nodes[i]["kind"] != "q":
            raise Skip
        k = _row_of(rows, i)
        rows[k]["type"] = newtype
        rows[k].pop("calculation", None)
        rows[k].setdefault("label", rows[k]["name"])
        rows[k]["parameters"] = params
        if extra:
            rows[k].update(extra)
        return E(k, located, named, phrase=phrase)
    return f


def m_choice(kind):
    def f(rows, nodes, i, ch):
        if i != 0:
            raise Skip  # choice-sheet mutations do not depend on the survey site
        if kind == "nameless":
            ch[1] = {"list_name": "c", "label": "Y"}
            return E(1, True, sheet="choices")
        if kind == "dup":
            ch[1] = {"list_name": "c", "name": "x", "label": "X2"}
            return E(1, True, ["x"], sheet="choices")
        if kind in ("dup-nolabel-first", "dup-nolabel-second", "dup-nolabel-both", "dup-third"):
            # the duplicate is refused whether or not the rows involved have a label (label-less choices only draw a warning)
            ch.append({"list_name": "c", "name": "x", "label": "X2"})
            if kind in ("dup-nolabel-first", "dup-nolabel-both"):
                ch[0].pop("label")
            if kind in ("dup-nolabel-second", "dup-nolabel-both"):
                ch[2].pop("label")
            if kind == "dup-third":
                ch[1].pop("label")
            return E(2, True, sheet="choices")
        if kind in ("badref-label-equals-name", "badref-label-equals-earlier-name", "badref-label-equals-list"):
            # a malformed reference in a choice label is refused also when the same text stands in a cell that is not checked (name, list name)
            bad = "cost_${"
            if kind == "badref-label-equals-name":
                ch[1] = {"list_name": "c", "name": bad, "label": bad}
            elif kind == "badref-label-equals-earlier-name":
                ch[0] = {"list_name": "c", "name": bad, "label": "X"}
                ch[1] = {"list_name": "c", "name": "y", "label": bad}
            else:
                ch.insert(0, {"list_name": bad, "name": "k", "label": "K"})
                ch[2] = {"list_name": "c", "name": "y", "label": bad}
                return E(2, True, sheet="choices")
            return E(1, True, sheet="choices")
        if kind == "invalid-mult":
            ch[1] = {"list_name": "c", "name": "y y", "label": "Y"}
            k = next((k for k, r in enumerate(rows) if r["type"] == "select_one c"), None)
            if k is None:
                raise Skip
            rows[k]["type"] = "select_multiple c"
            return E(None, False, ["y y"])
        raise AssertionError(kind)
    return f


def m_misc(kind):
    def f(rows, nodes, i, ch):
        k = _row_of(rows, i)
        r = rows[k]
        q = nodes[i]["kind"] == "q"
        if kind == "or_other+filter":
            if not q:
                raise Skip
            r.update(type="select_one c or_other", choice_filter="name = 'x'", label="L")
            r.pop("calculation", None)
            return E(k, True)
        if kind == "search+file":
            if not q:
                raise Skip
            r.update(type="select_one_from_file f.csv", appearance="search('f')", label="L")
            r.pop("calculation", None)
            return E(k, False)
        if kind == "root-name-clash":
            if q:
                raise Skip
            r["name"] = "data"
            return E(k, False, ["data"])
        if kind == "instance-clash":
            if not q:
                raise Skip
            # xml-external 'c' clashes with the instance of choice list c (different URI); needs a select on c
            rows.append({"type": "select_one c", "name": "zz9", "label": "Z"})
            r.update(type="xml-external", name="c")
            r.pop("label", None)
            r.pop("calculation", None)
            return E(None, False, ["c"])
        if kind == "bg-no-trigger":
            if not q:
                raise Skip
            r.update(type="background-geopoint")
            r.pop("label", None)
            r.pop("calculation", None)
            return E(k, True)
        if kind == "bg-with-calc":
            if not q or k == 0:
                raise Skip
            first = next((x for x in rows[:k] if x.get("type") in ("text", "integer")), None)
            if first is None:
                raise Skip
            r.update(type="background-geopoint", trigger="${%s}" % first["name"], calculation="1")
            r.pop("label", None)
            return E(k, True)
        if kind == "tablelist-mixed":
            if q:
                raise Skip
            if r["type"] != "begin group":
                raise Skip
            r["appearance"] = "table-list"
            rows[k + 1:k + 1] = [{"type": "select_one c", "name": "tl1", "label": "A"}, {"type": "select_one c2", "name": "tl2", "label": "B"}]
            ch.append({"list_name": "c2", "name": "p", "label": "P"})
            return E(k + 2, True)
        raise AssertionError(kind)
    return f


def _has_repeat_ancestor(nodes, i):
    p = nodes[i]["parent"]
    while p is not None:
        if nodes[p]["kind"] == "r":
            return True
        p = nodes[p]["parent"]
    return False


def m_saveto(kind):
    """entity save_to errors (an entities sheet is added): the row loop cites the row"""
    def f(rows, nodes, i, ch):
        k = _row_of(rows, i)
        q = nodes[i]["kind"] == "q"
        rows.append({"_entities": [{"list_name": "trees", "label": "x"}]})
        if kind == "in-repeat":
            if not q or not _has_repeat_ancestor(nodes, i):
                raise Skip
            rows[k]["save_to"] = "p"
            return E(k, True, phrase="repeat")
        if kind == "on-container":
            if q:
                raise Skip
            rows[k]["save_to"] = "p"
            return E(k, True)
        if kind in ("bad-name", "reserved-name", "reserved-label", "dunder"):
            if not q or _has_repeat_ancestor(nodes, i):
                raise Skip
            rows[k]["save_to"] = {"bad-name": "1p", "reserved-name": "name", "reserved-label": "Label", "dunder": "__p"}[kind]
            return E(k, True)
        if kind == "no-entities-sheet":
            if not q or _has_repeat_ancestor(nodes, i):
                raise Skip
            rows.pop()
            rows[k]["save_to"] = "p"
            return E(None, False)
        raise AssertionError(kind)
    return f


def m_seq(kind):
    """errors whose detection depends on rows seen earlier (state carried along the row loop / across elements)"""
    def f(rows, nodes, i, ch):
        k = _row_of(rows, i)
        q = nodes[i]["kind"] == "q"
        if kind == "select-param-after-from-file":
            if not q:
                raise Skip
            rows[k].update(type="select_one c", parameters="value=a", label="L")
            rows[k].pop("calculation", None)
            rows.insert(0, {"type": "select_one_from_file f.csv", "name": "ff0", "label": "F", "parameters": "value=a label=b"})
            return E(k + 1, False, ["value"])
        if kind == "select-param-label-after-from-file":
            if not q:
                raise Skip
            rows[k].update(type="select_multiple c", parameters="randomize=true label=b", label="L")
            rows[k].pop("calculation", None)
            rows.insert(0, {"type": "select_multiple_from_file f.xml", "name": "ff0", "label": "F"})
            return E(k + 1, False, ["label"])
        if kind in ("bg-trigger-ambiguous", "bg-trigger-ambiguous-3"):
            # a background-geopoint whose trigger names a question that exists in two (three) sections
            if not q:
                raise Skip
            rows[k] = {"type": "background-geopoint", "name": rows[k]["name"], "trigger": "${z}", "_n": i}
            rows.insert(0, {"type": "text", "name": "z", "label": "z"})
            for c in range(1, 3 if kind.endswith("3") else 2):
                rows.extend([{"type": "begin group", "name": f"zg{c}", "label": "zg"}, {"type": "text", "name": "z", "label": "z"}, {"type": "end group"}])
            return E(None, False, ["z"])
        if kind in ("calc-without-after-calc", "calc-without-after-calc-bare"):
            # a calculate row without calculation is refused whatever the rows before it carried (an earlier calculation, other bind cells)
            if not q:
                raise Skip
            rows[k] = {"type": "calculate", "name": rows[k]["name"], "_n": i} if kind.endswith("bare") else {**{c: v for c, v in rows[k].items() if c not in ("calculation", "label")}, "type": "calculate"}
            rows.insert(0, {"type": "calculate", "name": "cz9", "calculation": "1 + 1"})
            return E(k + 1, True, phrase="issing calculation")
        if kind in ("trigger-target-dup", "trigger-geopoint-target-dup"):
            # a triggered calculation whose own name also occurs elsewhere: the setvalue's target would be ambiguous
            if not q:
                raise Skip
            nm = rows[k]["name"]
            rows[k] = {"type": "calculate" if kind == "trigger-target-dup" else "background-geopoint", "name": nm, "trigger": "${trg9}", "_n": i}
            if kind == "trigger-target-dup":
                rows[k]["calculation"] = "1 + 1"
            rows.insert(0, {"type": "text", "name": "trg9", "label": "T"})
            rows.extend([{"type": "begin group", "name": "gz9", "label": "G"}, {"type": "text", "name": nm, "label": "D"}, {"type": "end group"}])
            return E(None, False, [nm])
        if kind in ("space-choice-after-select-one", "space-choice-after-rank", "space-choice-second-multiple"):
            # the list has a choice name with a space; a select_multiple on it is refused however many other users of the list came first
            if not q:
                raise Skip
            ch[1] = {"list_name": "c", "name": "y y", "label": "Y"}
            for x in rows:
                if x.get("type") == "select_multiple c":
                    x["type"] = "select_one c"
            rows[k].update(type="select_multiple c", label="L")
            rows[k].pop("calculation", None)
            first = {"space-choice-after-select-one": "select_one c", "space-choice-after-rank": "rank c", "space-choice-second-multiple": "select_one c or_other"}[kind]
            rows.insert(0, {"type": first, "name": "so9", "label": "S"})
            rows.insert(1, {"type": first, "name": "so8", "label": "S"})
            return E(None, False, ["y y"])
        if kind in ("bg-trigger-unknown-after-valid", "bg-trigger-group-after-valid"):
            # the last of several background-geopoint rows has a trigger naming nothing (or a group): validated at the end of the sheet, for every row
            if not q:
                raise Skip
            rows[k] = {"type": "background-geopoint", "name": rows[k]["name"], "trigger": "${zz}" if "unknown" in kind else "${gtz9}", "_n": i}
            rows[0:0] = [{"type": "text", "name": "trg9", "label": "T"}, {"type": "background-geopoint", "name": "bgv9", "trigger": "${trg9}"},
                         {"type": "begin group", "name": "gtz9", "label": "G"}, {"type": "background-geopoint", "name": "bgv8", "trigger": "${trg9}"}, {"type": "end group"}]
            return E(k + 5, True)
        if kind in ("file-stem-clash", "file-stem-clash-3"):
            # selects from files whose names share a stem but not the extension: one instance id for two sources
            if i != 0:
                raise Skip
            rows.extend([{"type": "select_one_from_file zz1.csv", "name": "fs1", "label": "F"}, {"type": "begin group", "name": "gz9", "label": "G"},
                         {"type": "select_multiple_from_file zz1.xml", "name": "fs2", "label": "F"}, {"type": "end group"}])
            if kind.endswith("3"):
                rows.append({"type": "select_one_from_file zz1.geojson", "name": "fs3", "label": "F"})
            return E(None, False, ["zz1"])
        if kind in ("tablelist-from-file", "tablelist-ref-list"):
            # the selects of a table-list group must use a list of the choices sheet
            if q or rows[k]["type"] != "begin group":
                raise Skip
            rows[k]["appearance"] = "table-list"
            rows.insert(0, {"type": "text", "name": "tq9", "label": "T"})
            ty = "select_one_from_file f.csv" if kind.endswith("file") else "select_one ${tq9}"
            rows[k + 2:k + 2] = [{"type": ty, "name": "tl1", "label": "A"}]
            return E(k + 2, True)
        if kind == "search-list-shared-with-randomize":
            if not q:
                raise Skip
            rows[k].update(type="select_one c", appearance="search('f')", label="L")
            rows[k].pop("calculation", None)
            rows.insert(0, {"type": "select_one c", "name": "rz9", "label": "R", "parameters": "randomize=true"})
            return E(None, False, ["rz9"])
        if kind in ("instance-clash-interleaved", "instance-clash-adjacent"):
            if i != 0:
                raise Skip
            ext = [{"type": "xml-external", "name": "zz1"}, {"type": "xml-external", "name": "zz2"}]
            if kind.endswith("adjacent"):
                ext = [ext[0]]
            rows.extend([*ext, {"type": "begin group", "name": "gz9", "label": "G"}, {"type": "xml-external", "name": "zz1"}, {"type": "end group"}])
            return E(None, False, ["zz1"])
        if kind == "instance-clash-csv-interleaved":
            if i != 0:
                raise Skip
            rows.extend([{"type": "csv-external", "name": "zz1"}, {"type": "xml-external", "name": "zz2"}, {"type": "csv-external", "name": "zz3"},
                         {"type": "begin group", "name": "gz9", "label": "G"}, {"type": "csv-external", "name": "zz1"}, {"type": "end group"}])
            return E(None, False, ["zz1"])
        raise AssertionError(kind)
    return f


CATALOGUE = {
    "bg-trigger-ambiguous": m_seq("bg-trigger-ambiguous"),
    "bg-trigger-ambiguous-3": m_seq("bg-trigger-ambiguous-3"),
    "calc-without-after-calc": m_seq("calc-without-after-calc"),
    "calc-without-after-calc-bare": m_seq("calc-without-after-calc-bare"),
    "choice-badref-label-equals-name": m_choice("badref-label-equals-name"),
    "choice-badref-label-equals-earlier-name": m_choice("badref-label-equals-earlier-name"),
    "choice-badref-label-equals-list": m_choice("badref-label-equals-list"),
    "select-param-after-from-file": m_seq("select-param-after-from-file"),
    "select-param-label-after-from-file": m_seq("select-param-label-after-from-file"),
    "trigger-target-dup": m_seq("trigger-target-dup"),
    "trigger-geopoint-target-dup": m_seq("trigger-geopoint-target-dup"),
    "space-choice-after-select-one": m_seq("space-choice-after-select-one"),
    "space-choice-after-rank": m_seq("space-choice-after-rank"),
    "space-choice-second-multiple": m_seq("space-choice-second-multiple"),
    "bg-trigger-unknown-after-valid": m_seq("bg-trigger-unknown-after-valid"),
    "bg-trigger-group-after-valid": m_seq("bg-trigger-group-after-valid"),
    "file-stem-clash": m_seq("file-stem-clash"),
    "file-stem-clash-3": m_seq("file-stem-clash-3"),
    "tablelist-from-file": m_seq("tablelist-from-file"),
    "tablelist-ref-list": m_seq("tablelist-ref-list"),
    "search-list-shared-with-randomize": m_seq("search-list-shared-with-randomize"),
    "instance-clash-interleaved": m_seq("instance-clash-interleaved"),
    "instance-clash-adjacent": m_seq("instance-clash-adjacent"),
    "instance-clash-csv-interleaved": m_seq("instance-clash-csv-interleaved"),
    "saveto-in-repeat": m_saveto("in-repeat"),
    "saveto-on-container": m_saveto("on-container"),
    "saveto-bad-name": m_saveto("bad-name"),
    "saveto-reserved-name": m_saveto("reserved-name"),
    "saveto-reserved-label": m_saveto("reserved-label"),
    "saveto-dunder": m_saveto("dunder"),
    "saveto-no-entities-sheet": m_saveto("no-entities-sheet"),
    "name-digit": m_invalid_name("1a"),
    "name-space": m_invalid_name("a b"),
    "name-dollar": m_invalid_name("a$"),
    "name-missing": m_no_name,
    "name-dup": m_dup_name("eq"),
    "name-dup-case": m_dup_name("case"),
    "type-missing": m_no_type,
    "type-unknown": m_type("foo", ["foo"]),
    "type-unknown-osm-inside": m_type("foo osm o bar", ["foo osm o bar"]),
    "type-unknown-osm-suffix": m_type("osm o extra", ["osm o extra"]),
    "type-select-osm-list": m_type("select_one osm o", ["select_one osm o"]),
    "select-no-list": m_type("select_one"),
    "select-missing-list": m_type("select_one zz", ["zz"], True, "not in choices sheet"),
    "selectm-missing-list": m_type("select_multiple zz", ["zz"], True, "not in choices sheet"),
    "rank-missing-list": m_type("rank zz", ["zz"], True, "not in choices sheet"),
    "ext-missing-list": m_type("select_one_external zz", ["zz"], True, extra={"choice_filter": "a=1"}),
    "osm-missing-list": m_type("osm zz", ["zz"], True),
    "loop-no-list": m_type("begin loop", (), True, only="g"),
    "loop-missing-list": m_type("begin loop over zz", ["zz"], True, only="g"),
    "calc-without-calculation": m_calc_without,
    "from-file-no-ext": m_type("select_one_from_file f", (), True),
    "from-file-bad-ext": m_type("select_one_from_file f.txt", (), True),
    "or_other+filter": m_misc("or_other+filter"),
    "search+file": m_misc("search+file"),
    "root-name-clash": m_misc("root-name-clash"),
    "instance-clash": m_misc("instance-clash"),
    "bg-no-trigger": m_misc("bg-no-trigger"),
    "bg-with-calc": m_misc("bg-with-calc"),
    "tablelist-mixed": m_misc("tablelist-mixed"),
    "choice-nameless": m_choice("nameless"),
    "choice-dup": m_choice("dup"),
    "choice-dup-nolabel-first": m_choice("dup-nolabel-first"),
    "choice-dup-nolabel-second": m_choice("dup-nolabel-second"),
    "choice-dup-nolabel-both": m_choice("dup-nolabel-both"),
    "choice-dup-third": m_choice("dup-third"),
    "choice-space-multiple": m_choice("invalid-mult"),
    # parameters
    "param-unknown-key": m_param("text", "foo=1", False, ["foo"]),
    "param-rows-nonint": m_param("text", "rows=abc", True),
    "param-maxpx-nonint": m_param("image", "max-pixels=abc", False),
    "param-app-bad": m_param("image", "app=nodots", True),
    "param-app-digit": m_param("image", "app=com.1x", True),
    "param-quality-bad": m_param("audio", "quality=zz", False),
    "param-capacc-bad": m_param("geopoint", "capture-accuracy=zz", False),
    "param-mock-bad": m_param("geopoint", "allow-mock-accuracy=zz", False),
    "param-seed-no-randomize": m_param("select_one c", "seed=3", False),
    "param-randomize-bad": m_param("select_one c", "randomize=maybe", False, ["maybe"]),
    "param-seed-bad": m_param("select_one c", "randomize=true seed=zz", False),
    "param-range-nonnum": m_param("range", "start=a end=5 step=1", False),
    "param-file-value-bad": m_param("select_one_from_file f.csv", "value=1a", True),
    "param-file-label-bad": m_param("select_one_from_file f.csv", "label=a*", True),
    "param-malformed": m_param("text", "rows", False),
    "param-audit-priority": m_param("audit", "location-priority=zz location-min-interval=1 location-max-age=2", False, extra={"name": "audit"}),
    "param-audit-partial": m_param("audit", "location-priority=balanced", False, extra={"name": "audit"}),
    "param-audit-track": m_param("audit", "track-changes=maybe", False, ["maybe"], extra={"name": "audit"}),
    "audit-named": m_type("audit", (), True, extra={"name": "zz"}),
}
for _c in REF_COLS_ALL:
    CATALOGUE[f"ref-unknown:{_c}"] = m_ref(_c, "${zz} = 1" if _c not in ("trigger",) else "${zz}", ["zz"], False)
    CATALOGUE[f"ref-open:{_c}"] = m_ref(_c, "${a", (), True)
    CATALOGUE[f"ref-space:{_c}"] = m_ref(_c, "${a b}", (), True)
    CATALOGUE[f"ref-nested:{_c}"] = m_ref(_c, "${a${b}}", (), True)
    CATALOGUE[f"ref-dup:{_c}"] = m_ref_dup(_c)
    CATALOGUE[f"ref-dup3:{_c}"] = m_ref_dup(_c, 3)
    if _c in ("relevant", "label", "calculation"):
        CATALOGUE[f"ref-dup4:{_c}"] = m_ref_dup(_c, 4)
        CATALOGUE[f"ref-dup5:{_c}"] = m_ref_dup(_c, 5)

HEADER_MUTS = ["dup-header", "dup-header-trailing-space", "dup-header-case", "alias-clash", "alias-clash-rev", "alias-clash-caption-label", "alias-clash-settings-title",
               "alias-clash-settings-ids-case", "md-wide-row", "md-empty-sheet", "md-empty-first-sheet", "no-type-header", "no-name-header",
               "no-survey", "omit-id+key", "dup-choices-header", "dup-settings-header"]
HDR_FORMATS = ["xlsx", "xls", "md", "csv"]


def strip(rows):
    return [{k: v for k, v in r.items() if not k.startswith("_")} for r in rows]


def build_cat(case):
    forest = forest_from_json(case["f"])
    rows, nodes = base(forest)
    ch = [dict(c) for c in CHOICES]
    exp = CATALOGUE[case["mut"]](rows, nodes, case["site"], ch)
    blanks = case["blanks"]
    wb = {"survey": rows, "choices": ch, "external_choices": [dict(r) for r in EXT], "osm": [dict(r) for r in OSM]}
    if rows and "_entities" in rows[-1]:
        wb["entities"] = rows.pop()["_entities"]
    if blanks:
        sheet = exp["sheet"]
        at = exp["row"] if exp["row"] is not None else 0
        wb[sheet][at:at] = [{} for _ in range(blanks)]
        if exp["row"] is not None:
            exp["row"] += blanks
    wb["survey"] = strip(wb["survey"])
    if not any("select" in r.get("type", "") or "loop" in r.get("type", "") or r.get("type", "").startswith("rank") for r in wb["survey"]):
        pass
    return wb, exp


def gen_cat(tier):
    N = 3 if tier == "quick" else 4
    B = (0, 1) if tier == "quick" else (0, 1, 2)
    for forest in forests_upto(N, 3):
        fj = forest_to_json(forest)
        n = len(flatten(forest, NAMES))
        for mut in CATALOGUE:
            for i in range(n):
                case = {"g": "cat", "f": fj, "mut": mut, "site": i, "blanks": 0}
                try:
                    build_cat(case)
                except Skip:
                    continue
                for b in B:
                    yield dict(case, blanks=b)
                    # the same broken workbook through the spreadsheet readers (blank rows are real empty rows there)
                    if n <= 2 and b <= 1:
                        for fmt in ("xlsx", "xls"):
                            yield dict(case, blanks=b, fmt=fmt)
    for hm in HEADER_MUTS:
        for forest in forests_upto(2, 3):
            if hm in ("md-wide-row", "md-empty-sheet", "md-empty-first-sheet"):
                yield {"g": "hdr", "f": forest_to_json(forest), "mut": hm, "fmt": "md"}
            elif hm.startswith("dup-") or hm.startswith("alias-clash"):
                for fmt in HDR_FORMATS:
                    yield {"g": "hdr", "f": forest_to_json(forest), "mut": hm, "fmt": fmt}
            else:
                yield {"g": "hdr", "f": forest_to_json(forest), "mut": hm}


def judge(out, exp, tag):
    """common oracle for a broken form"""
    viol = []
    if out.kind == "crash":
        return [(f"internal-exception:{out.exc}:{out.where}", f"{tag}: {out.msg}")], False
    if out.kind == "ok":
        return [(f"accepted:{tag}", "a broken form was converted")], False
    msg = out.msg or ""
    if not msg.strip():
        viol.append((f"empty-message:{tag}", ""))
    for tok in exp["named"]:
        if tok not in msg:
            viol.append((f"not-named:{tag}", f"{tok!r} not in message {msg[:200]!r}"))
    cited = [int(x) for x in ROW_RE.findall(msg)]
    want = exp["row"] + 2 if exp["row"] is not None else None
    if exp["located"]:
        if want not in cited:
            viol.append((f"row-not-cited:{tag}", f"want [row : {want}] got {cited} msg={msg[:200]!r}"))
    if cited and want is not None and not exp["any_row"] and any(c != want for c in cited):
        if not (exp["located"] and want not in cited):  # already reported above
            viol.append((f"wrong-row:{tag}", f"want {want} got {cited} msg={msg[:200]!r}"))
        elif not any(s.startswith("row-not-cited") for s, _ in viol):
            viol.append((f"wrong-row:{tag}", f"want {want} got {cited}"))
    if exp.get("phrase") and exp["phrase"] not in msg:
        viol.append((f"wrong-diagnosis:{tag}", f"expected phrase {exp['phrase']!r} in {msg[:200]!r}"))
    return viol, not viol


def check_cat(case):
    wb, exp = build_cat(case)
    if case.get("fmt"):
        src, kw = render.render(wb, case["fmt"])
        out = run_convert(src, **kw)
    else:
        out = run_convert(wb)
    tag = case["mut"]
    viol, nt = judge(out, exp, tag)
    return {"outcome": f"cat-{out.kind}", "nt": nt, "viol": viol, "tr": len(wb["survey"]),
            "extra": {("located-ok" if exp["located"] else "unlocated-ok"): int(nt)}}


def _tables(wb):
    return {sh: [list(r) for r in render.table(wb, sh)] for sh in render.sheet_names(wb)}


def _add_col(tbl, header, value):
    tbl[0].append(header)
    for r in tbl[1:]:
        r.append(value)


def _tables_to_text(tables, fmt):
    if fmt == "md":
        lines = []
        for sh, rows in tables.items():
            lines.append(f"| {sh} |")
            for row in rows:
                lines.append("| | " + " | ".join("" if v is None else str(v) for v in row) + " |")
        return "\n".join(lines) + "\n", {"file_type": ".md"}
    import csv
    import io

    f = io.StringIO(newline="")
    w = csv.writer(f, quoting=csv.QUOTE_ALL)
    for sh, rows in tables.items():
        w.writerow([sh])
        for row in rows:
            w.writerow(["", *["" if v is None else str(v) for v in row]])
    return f.getvalue(), {"file_type": ".csv"}


def check_hdr(case):
    forest = forest_from_json(case["f"])
    rows, nodes = base(forest)
    rows = strip(rows)
    wb = {"survey": rows, "choices": [dict(c) for c in CHOICES]}
    mut, fmt = case["mut"], case.get("fmt", "dict")
    exp = E()
    if mut in ("md-empty-sheet", "md-empty-first-sheet"):
        # a sheet name with no rows under it (last, or between two sheets)
        tables = _tables(wb)
        src, kw = _tables_to_text(tables, "md")
        src = (src + "| settings |\n") if mut == "md-empty-sheet" else ("| entities |\n" + src)
        out = run_convert(src, **kw)
        viol = [(f"internal-exception:{out.exc}:{out.where}:{mut}", out.msg[:200])] if out.kind == "crash" else []
        return {"outcome": f"hdr-{out.kind}", "nt": not viol, "viol": viol, "tr": 1}
    if mut == "md-wide-row":
        # a markdown data row with more cells than the header row: the surplus cells belong to no column (as in a spreadsheet)
        tables = _tables(wb)
        src, kw = _tables_to_text(tables, "md")
        lines = src.splitlines()
        k = next(i for i, ln in enumerate(lines) if ln.startswith("| |") or ln.startswith("|  |")) + 1
        lines[k] = lines[k].rstrip() + " surplus | more |"
        out = run_convert("\n".join(lines) + "\n", **kw)
        viol = []
        if out.kind == "crash":
            viol.append((f"internal-exception:{out.exc}:{out.where}:md-wide-row", out.msg[:200]))
        elif out.kind == "reject" and not isinstance(out.msg, str):
            viol.append(("md-wide-row:no-message", ""))
        return {"outcome": f"hdr-{out.kind}", "nt": not viol, "viol": viol, "tr": 1}
    if mut.startswith("dup-") or mut.startswith("alias-clash"):
        wb["settings"] = [{"form_title": "T"}]
        tables = _tables(wb)
        if mut == "dup-header":
            _add_col(tables["survey"], "name", "zz")
            exp = E(named=["name"])
        elif mut == "dup-header-trailing-space":
            if fmt in ("md",):
                _add_col(tables["survey"], "name", "zz")  # md cells cannot carry edge spaces
            else:
                _add_col(tables["survey"], "name ", "zz")
            exp = E(named=["name"])
        elif mut == "dup-header-case":
            _add_col(tables["survey"], "Name", "zz")
            exp = E(named=["ame"])
        elif mut == "alias-clash":
            _add_col(tables["survey"], "relevant", "1")
            _add_col(tables["survey"], "relevance", "1")
        elif mut == "alias-clash-rev":
            # the alias left of the canonical spelling
            _add_col(tables["survey"], "relevance", "1")
            _add_col(tables["survey"], "relevant", "1")
        elif mut == "alias-clash-caption-label":
            hs = tables["survey"][0]
            hs.insert(hs.index("label"), "caption")
            for r in tables["survey"][1:]:
                r.insert(hs.index("caption"), "cap")
        elif mut == "alias-clash-settings-title":
            tables["settings"][0].append("title")
            tables["settings"][1].append("U")
        elif mut == "alias-clash-settings-ids-case":
            tables["settings"][0][:0] = ["Form_ID", "id_string"]
            tables["settings"][1][:0] = ["a", "b"]
        elif mut == "dup-choices-header":
            _add_col(tables["choices"], "label", "dup")
            exp = E(named=["label"])
        elif mut == "dup-settings-header":
            _add_col(tables["settings"], "form_title", "U")
            exp = E(named=["form_title"])
        if fmt in ("xlsx", "xls"):
            src, kw = render.render(wb, fmt, tables)
        else:
            src, kw = _tables_to_text(tables, fmt)
        out = run_convert(src, **kw)
    else:
        if mut == "no-type-header":
            wb["survey"] = [{k: v for k, v in r.items() if k != "type"} for r in rows]
        elif mut == "no-name-header":
            wb["survey"] = [{k: v for k, v in r.items() if k != "name"} for r in rows if not r["type"].startswith("end")]
        elif mut == "no-survey":
            del wb["survey"]
        elif mut == "omit-id+key":
            wb["settings"] = [{"omit_instanceID": "yes", "public_key": "K", "submission_url": "http://x"}]
        out = run_convert(wb)
    viol, nt = judge(out, exp, f"{mut}:{fmt}" if fmt in ("md", "csv") else mut)
    return {"outcome": f"hdr-{out.kind}", "nt": nt, "viol": viol, "tr": 1}


# ----------------------------------------------------------------------------- voc ------
VALID_TYPES = [
    "text", "integer", "decimal", "date", "time", "dateTime", "geopoint", "geotrace", "geoshape", "barcode", "note",
    "acknowledge", "range", "image", "audio", "video", "file", "calculate", "hidden", "start", "end", "today", "deviceid",
    "phonenumber", "username", "email", "subscriberid", "simserial", "audit", "start-geopoint", "background-audio",
    "background-geopoint", "xml-external", "csv-external", "select_one c", "select_one c or_other", "select_multiple c",
    "select_multiple c or_other", "rank c", "select_one_from_file f.csv", "select_multiple_from_file f.geojson",
    "select_one_external e", "osm o", "osm", "select_one ${t0}",
]
MALFORMED_TYPES = [
    "select_one", "select_multiple", "select_multiple ${t0}", "select_one_external c", "select_one_external zz", "osm nolist",
    "begin", "end", "begin group x", "begin loop", "loop over c", "begin loop over c", "begin loop over zz", "select_one c d",
    "select_one c or_other x", "select_one zz", "select_one  c", "SELECT_ONE c", "Text", "rank", "rank zz", "select_one_from_file",
    "select_one_from_file f", "select_one_from_file f.txt", "select_one_from_file ${t0}", "foo", "", " ", "text ", "begin group",
    "begin repeat", "end group", "end repeat", "end loop", "${t0}", "select_one c or other", "or_other", "select_one or_other",
    "begin_group", "begin table-list", "select one from c", "select all that apply from c", "add select one prompt using c",
    "trigger", "photo", "group", "repeat", "loop", "begin survey", "end survey", "begin", "select_one_from_file f.csv x", "string", "int", "gps", "q picture", "survey", "form_title", "form_id", "id_string", "title",
    "sms_keyword", "default_language", "public_key", "submission_url", "select_one_from_file f.xml or_other", "geopoint x",
    "select_one c\n", "select_one\tc", "begin\xa0group", "select_one ${zz}", "select_multiple ${a b}", "select_one ${",
    "select_one ${t0}x", "select_one x${t0}", "select_one ${t0}${t0}", "rank ${t0}.", "select_multiple ${t0}x", "rank ${t0}", "select_one ${t0}.csv",
    "select_one_from_file ${t0}.csv", "select_one_external ${t0}", "entity", "option", "tag", "section",
]
REP_VALID = ["text", "calculate", "select_one c or_other", "audit", "xml-external", "note"]
NAMEV = ["q", None, "", "t0", "meta", "1a", "data", "instanceID", "Q"]
EXTRA_COLS = ["parameters", "appearance", "choice_filter", "default", "repeat_count", "trigger", "relevant", "calculation",
              "label::en", "media::image", "constraint_message", "bind::x", "instance::x", "body::x", "required", "hint",
              "media::image::en", "label", "bind::jr:constraintMsg::en", "read_only", "save_to", "disabled",
              "guidance_hint", "bind::calculate", "bind::type", "bind::nodeset", "body::ref", "body::nodeset", "instance::id",
              "control::appearance", "constraint", "media::audio", "media::big-image", "required_message", "body::intent",
              "bind::relevant", "bind::required", "instance::xmlns", "body::class", "bind::jr:preload", "body::mediatype",
              "jr", "bind:jr", "bind:jr:x", "flat"]
# survey column headers equal to keys of pyxform's internal JSON form (not XLSForm vocabulary): explored separately
INTERNAL_COLS = ["bind", "control", "choices", "children", "itemset", "list_name", "columns", "query", "value", "intent",
                 "instance", "media", "parameters::x", "type::x", "name::x", "itemset::x", "action", "actions", "tags", "bind:", "body"]
EXTRA_VALS = ["", " ", "${q}", "${t0}", "x=1", "rows=a", "randomize=true", "search('f')", "now()", "1", "yes", "seed=${t0}",
              "${zz}", "a b", "<", "table-list", "field-list", "value=a label=b", "${", "-", "true()", "label", "0", "no", "${data}", "${meta}", "${instanceID}",
              "100% sure", "%(foo)s", "%"]
CHOICE_SHEETS = {
    "normal": [{"list_name": "c", "name": "x", "label": "X"}, {"list_name": "c", "name": "y", "label": "Y"}],
    "absent": None,
    "nolabel": [{"list_name": "c", "name": "x"}, {"list_name": "c", "name": "y"}],
    "mixed": [{"list_name": "c", "name": "x", "label::en": "X"}, {"list_name": "c", "name": "y"}],
    "otherlist": [{"list_name": "d", "name": "x", "label": "X"}],
    "empty": [],
    "media": [{"list_name": "c", "name": "x", "label": "X", "media::image": "x.png"}, {"list_name": "c", "name": "y", "label::fr": "Y", "z": "1"}],
    "noname": [{"list_name": "c", "label": "X"}],
    "nolist": [{"name": "x", "label": "X"}],
    "numname": [{"list_name": "c", "name": "1", "label": "1"}, {"list_name": "c", "name": "1.5", "label": "2"}],
}
CONTEXTS = ["top", "group", "repeat", "group-then", "unbalanced", "nested", "loop"]
EXT = [{"list_name": "e", "name": "p", "label": "P", "state": "s"}]
OSM = [{"list_name": "o", "name": "building", "label": "B"}]


def voc_row(t, nm="q", extra=None):
    r = {"type": t}
    if nm is not None:
        r["name"] = nm
    if t.split(" ")[0] not in ("calculate", "hidden", "start", "end", "today", "audit", "xml-external", "csv-external"):
        r["label"] = "L"
    if t == "calculate":
        r["calculation"] = "1"
    if t == "background-geopoint":
        r["trigger"] = "${t0}"
    if t == "select_one_external e":
        r["choice_filter"] = "state=${t0}"
    if t == "audit" and nm == "q":
        r["name"] = "audit"
    if extra:
        r[extra[0]] = extra[1]
    return r


def voc_wb(rows, ctx, chv):
    t0 = {"type": "text", "name": "t0", "label": "T0"}
    if ctx == "top":
        sv = [t0, *rows]
    elif ctx == "group":
        sv = [t0, {"type": "begin group", "name": "w", "label": "W"}, *rows, {"type": "end group"}]
    elif ctx == "repeat":
        sv = [t0, {"type": "begin repeat", "name": "w", "label": "W"}, *rows, {"type": "end repeat"}]
    elif ctx == "group-then":
        sv = [t0, {"type": "begin group", "name": "w", "label": "W"}, rows[0], {"type": "end group"}, *rows[1:]]
    elif ctx == "unbalanced":
        sv = [t0, {"type": "begin group", "name": "w", "label": "W"}, *rows]
    elif ctx == "nested":
        sv = [{"type": "begin repeat", "name": "w", "label": "W"}, t0, {"type": "begin group", "name": "v"}, *rows,
              {"type": "end group"}, {"type": "end repeat"}]
    elif ctx == "loop":
        sv = [t0, {"type": "begin loop over c", "name": "w", "label": "W"}, *rows, {"type": "end loop"}]
    wb = {"survey": sv, "external_choices": [dict(r) for r in EXT], "osm": [dict(r) for r in OSM]}
    ch = CHOICE_SHEETS[chv]
    if ch is not None:
        wb["choices"] = [dict(r) for r in ch]
    return wb


def gen_voc1(tier):
    types = VALID_TYPES + MALFORMED_TYPES
    if tier == "quick":
        for t in types:
            for nm in NAMEV:
                for chv in CHOICE_SHEETS:
                    yield {"g": "voc", "rows": [[t, nm, None]], "ctx": "top", "ch": chv}
            for col in EXTRA_COLS:
                for val in EXTRA_VALS:
                    yield {"g": "voc", "rows": [[t, "q", [col, val]]], "ctx": "top", "ch": "normal"}
    else:
        for t in types:
            for nm in NAMEV:
                for chv in CHOICE_SHEETS:
                    for ctx in ("top", "repeat"):
                        yield {"g": "voc", "rows": [[t, nm, None]], "ctx": ctx, "ch": chv}
            for col in EXTRA_COLS:
                for val in EXTRA_VALS:
                    for chv in ("normal", "nolabel", "mixed", "absent"):
                        for ctx in ("top", "repeat"):
                            yield {"g": "voc", "rows": [[t, "q", [col, val]]], "ctx": ctx, "ch": chv}


def gen_vocint(tier):
    types = VALID_TYPES + (MALFORMED_TYPES if tier == "thorough" else MALFORMED_TYPES[:14])
    for t in types:
        for col in INTERNAL_COLS:
            for val in ("", "x", "${t0}", "a=b", "1"):
                yield {"g": "voc", "rows": [[t, "q", [col, val]]], "ctx": "top", "ch": "normal"}


CH_INTERNAL = ["media", "children", "choices", "bind", "control", "itemset", "name::x", "list_name::x", "label::en::x", "media::image::en::x", "instance", "type"]


def gen_vocch(tier):
    """choices-sheet column headers equal to internal keys / over-long grouped headers"""
    for col in CH_INTERNAL:
        for val in ("x", "", "${t0}"):
            for t in ("select_one c", "select_multiple c or_other", "text"):
                yield {"g": "voc", "rows": [[t, "q", None]], "ctx": "top", "ch": "normal", "chcol": [col, val]}


OSM_VARIANTS = {
    "selfref": [{"list_name": "o", "name": "o", "label": "O"}],                       # a tag named like its own list
    "selfref2": [{"list_name": "o", "name": "a", "label": "A"}, {"list_name": "a", "name": "a", "label": "AA"}],
    "cycle": [{"list_name": "o", "name": "a", "label": "A"}, {"list_name": "a", "name": "o", "label": "O"}],
    "nolabel": [{"list_name": "o", "name": "a"}],
    "noname": [{"list_name": "o", "label": "A"}],
    "nolist": [{"name": "a", "label": "A"}],
    "deep": [{"list_name": "o", "name": "a", "label": "A"}, {"list_name": "a", "name": "b", "label": "B"}, {"list_name": "b", "name": "c", "label": "C"}],
}


def gen_vocosm(tier):
    for ov in OSM_VARIANTS:
        for t in ("osm o", "osm", "osm a", "text"):
            for ctx in ("top", "repeat"):
                yield {"g": "voc", "rows": [[t, "q", None]], "ctx": ctx, "ch": "normal", "osm": ov}


def gen_voc2(tier):
    types = VALID_TYPES + MALFORMED_TYPES
    for t1 in types:
        for t2 in types:
            for ctx in CONTEXTS:
                if tier == "quick" and ctx in ("nested", "loop") and not (t1 in MALFORMED_TYPES[:14] or t2 in MALFORMED_TYPES[:14]):
                    continue
                yield {"g": "voc", "rows": [[t1, "q", None], [t2, "q2", None]], "ctx": ctx, "ch": "normal"}
    if tier == "thorough":
        devs = [("ch", c) for c in CHOICE_SHEETS if c != "normal"] + [("nm", n) for n in (None, "q", "meta")] + \
               [("ex", [c, v]) for c, v in (("parameters", "randomize=true"), ("appearance", "search('f')"), ("choice_filter", "x=1"),
                                            ("repeat_count", "${t0}"), ("trigger", "${t0}"), ("default", "${t0}"), ("label::en", "E"),
                                            ("appearance", "table-list"), ("relevant", "${q}"), ("calculation", "${q2}"))]
        for t1 in types:
            for t2 in MALFORMED_TYPES + REP_VALID:
                for ctx in ("top", "repeat", "group-then"):
                    for kind, d in devs:
                        r1, r2, chv = [t1, "q", None], [t2, "q2", None], "normal"
                        if kind == "ch":
                            chv = d
                        elif kind == "nm":
                            r2[1] = d
                        else:
                            r1[2] = d
                        yield {"g": "voc", "rows": [r1, r2], "ctx": ctx, "ch": chv}


def gen_vocsel(tier):
    """every select-like type x the cells that change how its list is used x every choices-sheet variant (quick tier too)"""
    sels = [t for t in VALID_TYPES + MALFORMED_TYPES if t.split(" ")[0] in ("select_one", "select_multiple", "rank", "select_one_from_file", "select_multiple_from_file", "select_one_external")
            or t.startswith(("select one", "select all", "add select"))]
    cells = [None, ["appearance", "search('f')"], ["appearance", "minimal search('f')"], ["parameters", "randomize=true"], ["parameters", "randomize=true seed=${t0}"],
             ["choice_filter", "x=1"], ["appearance", "label"], ["appearance", "list-nolabel"], ["default", "x"], ["label::en", "E"]]
    for t in sels:
        for ex in cells:
            for chv in CHOICE_SHEETS:
                for ctx in ("top", "repeat", "loop"):
                    yield {"g": "voc", "rows": [[t, "q", ex]], "ctx": ctx, "ch": chv}
                # inside a table-list group
                yield {"g": "voc", "rows": [["begin group", "q", ["appearance", "table-list"]], [t, "q2", ex], ["end group", "q3", None]], "ctx": "top", "ch": chv}


def gen_voc3(tier):
    if tier != "thorough":
        return
    pool = MALFORMED_TYPES[:24] + REP_VALID
    for t1 in pool:
        for t2 in pool:
            for t3 in pool:
                for ctx in ("top", "repeat"):
                    yield {"g": "voc", "rows": [[t1, "q", None], [t2, "q2", None], [t3, "q3", None]], "ctx": ctx, "ch": "normal"}


def _run_voc(case):
    rows = [voc_row(t, nm, ex) for t, nm, ex in case["rows"]]
    wb = voc_wb(rows, case["ctx"], case["ch"])
    if case.get("chcol"):
        for r in wb.get("choices", ()):
            r[case["chcol"][0]] = case["chcol"][1]
    if case.get("osm"):
        wb["osm"] = [dict(r) for r in OSM_VARIANTS[case["osm"]]]
    return rows, wb, run_convert(wb)


def isolate(case, out):
    """which slots are necessary for this crash: reset each slot to its default and re-execute; a slot is
    necessary iff the crash (same exception type and frame) disappears.  Deterministic, a few executions."""
    feats = []

    def same(c2):
        o2 = _run_voc(c2)[2]
        return o2.kind == "crash" and (o2.exc, o2.where) == (out.exc, out.where)

    # a single slot value that reproduces the crash on its own (one row, top level, normal choices) names it
    for t, nm, ex in case["rows"]:
        if ex and ex[0] in INTERNAL_COLS and same({"g": "voc", "rows": [["text", "q", [ex[0], "x"]]], "ctx": "top", "ch": "normal"}):
            return f"internal-key-header={ex[0]}"
    for t, nm, ex in case["rows"]:
        if ex and same({"g": "voc", "rows": [["text", "q", ex]], "ctx": "top", "ch": "normal"}):
            return f"col={ex[0]}"
    for t, nm, ex in case["rows"]:
        if t != "text" and same({"g": "voc", "rows": [[t, "q", None]], "ctx": "top", "ch": "normal"}):
            return f"type={t}"

    for k, (t, nm, ex) in enumerate(case["rows"]):
        if ex:
            c2 = dict(case, rows=[list(r) for r in case["rows"]])
            c2["rows"][k][2] = None
            if not same(c2):
                feats.append(f"col={ex[0]}")
    if case["ch"] != "normal" and not same(dict(case, ch="normal")):
        feats.append(f"choices={case['ch']}")
    for k, (t, nm, ex) in enumerate(case["rows"]):
        dn = ["q", "q2", "q3"][k]
        if nm != dn:
            c2 = dict(case, rows=[list(r) for r in case["rows"]])
            c2["rows"][k][1] = dn
            if not same(c2):
                feats.append(f"name={nm!r}")
    if case["ctx"] != "top" and not same(dict(case, ctx="top")):
        feats.append(f"ctx={case['ctx']}")
    for k, (t, nm, ex) in enumerate(case["rows"]):
        if t != "text":
            c2 = dict(case, rows=[list(r) for r in case["rows"]])
            c2["rows"][k][0] = "text"
            if not same(c2):
                feats.append(f"type={t}")
    return ",".join(feats) or "any"


def check_voc(case):
    rows, wb, out = _run_voc(case)
    viol = []
    if out.kind == "crash":
        feat = isolate(case, out) if not (case.get("chcol") or case.get("osm")) else "sheet"
        if case.get("osm"):
            sig = f"internal-exception:{out.exc}:{out.where}:osm-sheet={case['osm']}"
        elif case.get("chcol"):
            sig = f"internal-exception:internal-key-header=choices.{case['chcol'][0]}"
        elif feat.startswith("internal-key-header="):
            sig = f"internal-exception:{feat}"
        elif any(f_.startswith("col=") and f_[4:] in INTERNAL_COLS for f_ in feat.split(",")):
            # the crash needs the internal-key column (and possibly a particular type next to it): filed under the column
            col = next(f_[4:] for f_ in feat.split(",") if f_.startswith("col=") and f_[4:] in INTERNAL_COLS)
            sig = f"internal-exception:internal-key-header={col}"
        else:
            sig = f"internal-exception:{out.exc}:{out.where}:{feat}"
        viol.append((sig, f"{out.exc} at {out.where}: {out.msg} rows={rows} ctx={case['ctx']} ch={case['ch']}"))
    elif out.kind == "reject" and not (out.msg or "").strip():
        viol.append(("empty-message:voc", str(rows)))
    mal = any(t in MALFORMED_TYPES for t, _, _ in case["rows"]) or case["ch"] != "normal" or any(nm != "q" and nm not in ("q2", "q3") for _, nm, _ in case["rows"]) \
        or any(ex for _, _, ex in case["rows"]) or case["ctx"] == "unbalanced"
    return {"outcome": f"voc-{out.kind}", "nt": mal and not viol, "viol": viol, "tr": len(wb["survey"])}


# names that are only checked when the survey tree is validated: the form's own name and the groups a loop builds from choice names
FORM_NAMES = ["a:b:c", "a:", ":", "a:b", "_", "a.b", "1a", "a b", "\u00e9:\u00e8", "a::b", "-a", "a-", "x" * 70, "data", "meta", ""]


def gen_formnames(tier):
    for nm in FORM_NAMES:
        for ch in ("settings-name", "form_name-arg", "loop-choice", "settings-form_id", "repeat-in-loop-choice"):
            yield {"g": "formname", "name": nm, "ch": ch}


def check_formname(case):
    nm, ch = case["name"], case["ch"]
    wb = {"survey": [{"type": "text", "name": "q", "label": "Q"}]}
    kw = {}
    if ch == "settings-name":
        wb["settings"] = [{"name": nm}]
    elif ch == "settings-form_id":
        wb["settings"] = [{"form_id": nm}]
    elif ch == "form_name-arg":
        kw["form_name"] = nm
    else:
        inner = [{"type": "text", "name": "lq", "label": "LQ"}]
        if ch.startswith("repeat"):
            inner = [{"type": "begin repeat", "name": "lr", "label": "LR"}, *inner, {"type": "end repeat"}]
        wb["survey"] += [{"type": "begin loop over t", "name": "lp", "label": "LP"}, *inner, {"type": "end loop"}]
        wb["choices"] = [{"list_name": "t", "name": nm, "label": "N"}, {"list_name": "t", "name": "ok1", "label": "O"}]
    out = run_convert(wb, **kw)
    viol = []
    if out.kind == "crash":
        viol.append((f"internal-exception:{out.exc}:{out.where}:formname:{ch}", f"name={nm!r}: {out.msg[:160]}"))
    elif out.kind == "reject" and not (out.msg or "").strip():
        viol.append(("empty-message:formname", repr(nm)))
    return {"outcome": f"voc-{out.kind}", "nt": not viol, "viol": viol, "tr": 2}


# --------------------------------------------------------------------------- engine -----
from xmc.spaces import GenSpace  # noqa: E402

def gen_corpus(tier):
    """the frozen corpus of realistic workbooks (xmc/corpus.py; about a fifth of them are broken forms) and, for every form,
    every workbook obtained by deleting one survey row (begin / end rows included: unbalanced nesting, references and
    lists left dangling), writing one survey row twice, emptying one survey cell, or deleting one choices row: the only
    outcomes are an XForm or the library's error"""
    from xmc import corpus

    for cid, name, wb in corpus.forms():
        yield {"g": "corpus", "cid": cid, "wb": wb, "drop": None}
        n = len(wb["survey"])
        if n <= 40:
            for i in range(n):
                yield {"g": "corpus", "cid": cid, "wb": wb, "drop": i}
                yield {"g": "corpus", "cid": cid, "wb": wb, "drop": i, "dup": True}
                for k in sorted(wb["survey"][i]):
                    if wb["survey"][i][k] not in (None, ""):
                        yield {"g": "corpus", "cid": cid, "wb": wb, "drop": i, "cell": k}
            for i in range(len(wb.get("choices") or ())):
                yield {"g": "corpus", "cid": cid, "wb": wb, "drop": i, "sheet": "choices"}


def gen_langdup(tier):
    """a translatable column given twice for one language: unsuffixed and suffixed with the default language, next to another
    language, in every column order, on the survey and the choices sheet: an XForm or the library's error, whichever order"""
    for col in ("label", "hint", "constraint_message", "image", "guidance_hint"):
        for dl in ("English (en)", "en", "default"):
            for perm in itertools.permutations([col, f"{col}::{dl}", f"{col}::French (fr)"]):
                for sheet, txt in itertools.product(("survey", "choices"), ("neutral", "named")):
                    if sheet == "choices" and col not in ("label", "image"):
                        continue
                    q = {"type": "select_one c", "name": "q1"}
                    c = {"list_name": "c", "name": "x"}
                    tgt = q if sheet == "survey" else c
                    for n_, k in enumerate(perm):
                        # two sets of texts: neutral ones, and ones that contain the name of the language
                        tgt[k] = (f"v{n_}.png" if col == "image" else f"v{n_}") if txt == "neutral" else (f"t-{k}.png" if col == "image" else f"t-{k}")
                    q.setdefault("label", "Q")
                    c.setdefault("label", "X")
                    if col == "constraint_message":
                        q["constraint"] = ". != 'y'"
                    wb = {"survey": [q], "choices": [c], "settings": [{"default_language": dl}]}
                    yield {"g": "corpus", "cid": f"langdup:{sheet}:{txt}:{'|'.join(perm)}", "wb": wb, "drop": None}


# settings-sheet headers: the documented ones, keys of pyxform's JSON form, attribute names of its element classes, unknown ones
SETTINGS_HEADERS = ["form_title", "form_id", "version", "name", "default_language", "style", "public_key", "submission_url", "auto_send", "auto_delete",
                    "instance_name", "namespaces", "instance_xmlns", "allow_choice_duplicates", "clean_text_values", "omit_instanceID", "flat", "prefix", "delimiter",
                    "sms_keyword", "sms_separator", "sms_allow_media", "sms_date_format", "sms_datetime_format", "sms_response", "add_none_option", "compact_tag",
                    "type", "children", "choices", "bind", "control", "instance", "attribute", "label", "hint", "media", "parameters", "itemset", "list_name", "action",
                    "tags", "body", "parent", "extra_data", "title", "id_string", "entity_features", "_translations", "_xpath", "setvalues_by_triggering_ref",
                    "setgeopoint_by_triggering_ref", "foo", "what ever", "q", "meta", "data", "trigger", "default", "relevant", "required", "appearance", "survey"]
SETTINGS_VALUES = ["x", "group", "survey", "yes", "${q}", "1", "a=b", "<"]


def gen_sethdr(tier):
    """one settings column of any name: an XForm or the library's error"""
    for h in SETTINGS_HEADERS:
        for v in SETTINGS_VALUES:
            wb = {"survey": [{"type": "text", "name": "q", "label": "Q"}], "settings": [{"form_id": "f1", h: v}]}
            yield {"g": "corpus", "cid": f"sethdr:{h}={v}", "wb": wb, "drop": None, "sigkey": f"settings.{h}"}


def check_corpus(case):
    wb = case["wb"]
    if case["drop"] is not None:
        sh = case.get("sheet", "survey")
        if case.get("cell"):  # one cell emptied
            rows = [({k: v for k, v in r.items() if k != case["cell"]} if i == case["drop"] else r) for i, r in enumerate(wb[sh])]
        elif case.get("dup"):  # one row written twice
            rows = [r2 for i, r in enumerate(wb[sh]) for r2 in ((r, dict(r)) if i == case["drop"] else (r,))]
        else:  # one row deleted
            rows = [r for i, r in enumerate(wb[sh]) if i != case["drop"]]
        wb = dict(wb, **{sh: rows})
    out = run_convert(wb)
    viol = []
    if out.kind == "crash":
        sig = f"internal-exception:{out.exc}:{out.where}:corpus"
        ext_nofilter = any(str(r.get("type", "")).split()[:1] in (["select_one_external"], ["select_multiple_external"]) and not r.get("choice_filter") for r in wb["survey"])
        if out.exc == "KeyError" and out.where.endswith(":add_choices_info_to_question") and ext_nofilter:
            # the listed defect (external select without a choice_filter), reached here by emptying that cell: same input feature, same signature
            sig = "internal-exception:KeyError:pyxform/xls2json.py:add_choices_info_to_question:col=choice_filter,type=select_one_external e"
        if case.get("sigkey"):
            sig = f"internal-exception:internal-key-header={case['sigkey']}"
        viol.append((sig, f"{out.exc} at {out.where}: {out.msg} corpus={case['cid']} drop={case['drop']} cell={case.get('cell')}"))
    elif out.kind == "reject" and not (out.msg or "").strip():
        viol.append(("empty-message:corpus", case["cid"]))
    return {"outcome": f"corpus-{out.kind}", "nt": case["drop"] is not None and not viol, "viol": viol, "tr": len(wb["survey"])}


SPACE = GenSpace({"corpus": gen_corpus, "langdup": gen_langdup, "sethdr": gen_sethdr, "formnames": gen_formnames, "seq": gen_seq, "cat": gen_cat, "voc1": gen_voc1, "vocint": gen_vocint, "vocch": gen_vocch, "vocosm": gen_vocosm, "vocsel": gen_vocsel, "voc2": gen_voc2, "voc3": gen_voc3}, chunk=500)
blocks = SPACE.blocks
expand = SPACE.expand


def required_outcomes(tier):
    return {"seq-ok-ok", "seq-end-reject", "seq-begin-reject", "cat-reject", "hdr-reject", "voc-ok", "voc-reject"}


def check_one(case):
    g = case["g"]
    if g == "seq":
        return check_seq(case)
    if g == "cat":
        return check_cat(case)
    if g == "hdr":
        return check_hdr(case)
    if g == "formname":
        return check_formname(case)
    if g == "corpus":
        return check_corpus(case)
    return check_voc(case)

# as-built additions of the seventh wave (reported with the bound in the evidence)
BOUND = {k: v + "; seventh wave: " + 'the frozen corpus and every one-row deletion / duplication, one-cell deletion and one-choice deletion of its forms of <=40 rows; a translatable column given twice for the default language in every column order; one settings column of any of 61 names x 8 values; catalogue entries for errors after earlier rows (calculate without calculation, ambiguous background-geopoint trigger, malformed reference equal to an unchecked cell)' for k, v in BOUND.items()}
