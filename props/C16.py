"""C16 - the JSON intermediate form is a faithful, reloadable representation."""

import itertools
import json

from xmc import grid
from xmc.impl import run_convert
from xmc.spaces import GenSpace
from props import C01, C12, C13

ID = "C16"
LEVEL = "model_checking"
TECHNIQUE = "exhaustive differential exploration: every form of the bounded feature/layout/translation spaces taken through workbook -> JSON text -> survey -> XForm and survey -> to_json_dict -> JSON text -> survey -> XForm / to_json_dict on the implementation, byte comparison"
CLAIM = ("Every form of the feature catalogue (incl. group logic, extra choice columns, parameters, translations, media, settings, "
         "entities, triggers, dynamic defaults, or_other, table-list), the layout space and sparse translation grids is converted by the "
         "real code; the XForm rebuilt from the dumped-and-reloaded workbook JSON, and from the survey's own JSON dump, must be byte-identical "
         "to direct conversion, and the dump must be stable under dump-load-dump.")
RULE = (
    "case = one accepted form of the union space; three relations are evaluated (workbook-JSON reload, survey-JSON reload, dump "
    "stability); non-trivial = form containing at least one of: group/repeat logic, extra choice column, parameters, translation, "
    "trigger, dynamic default, entity, or_other; distinct by canonical case hash"
)
ASSUMPTIONS = ["json.dumps/loads is the serialisation; byte identity of the compact XForm is the comparison"]
BOUND = {
    "quick": "rich forms + catalogue x 2 decorations + L(4,3) layouts with container logic + C01 layouts L(4,3) x 3 rotations + translation grid subsets <=2 (core) x 2 default languages",
    "thorough": "same with L(5,3) and grid subsets <=3 (core)",
}
# as-built additions to the bound (kept next to BOUND so that the evidence reports them)
BOUND = {k: v + "; plus: " + 'dump-to-path / load-from-path sequences re-using one path for two surveys; group/repeat/loop nesting chains (depth <=2, thorough <=3) x 6 leaf kinds whose output depends on the ancestors; legacy question types with overridden defaults, OSM with choice lists, 25 field-like extra choice column names (alone, filtered, pairs), add_none_option (open finding)' for k, v in BOUND.items()}

EXTRA = [
    {"survey": [{"type": "begin group", "name": "g", "label": "G", "relevant": "${q} = 1", "read_only": "yes", "appearance": "field-list"},
                {"type": "text", "name": "q", "label": "Q"}, {"type": "end group"},
                {"type": "begin repeat", "name": "r", "label": "R", "relevant": "${q} != ''", "repeat_count": "2 + 1"},
                {"type": "select_one c", "name": "s", "label": "S", "choice_filter": "x = ${q}"}, {"type": "end repeat"}],
     "choices": [{"list_name": "c", "name": "a", "label": "A", "x": "1", "y": "u"}, {"list_name": "c", "name": "b", "label": "B", "x": "2"}]},
    {"survey": [{"type": "text", "name": "q", "label": "Q", "default": "now()", "instance::ia": "v", "bind::foo": "bar", "body::accept": "z"},
                {"type": "calculate", "name": "k", "calculation": "${q} + 1", "trigger": "${q}"},
                {"type": "background-geopoint", "name": "bg", "trigger": "${q}"},
                {"type": "select_multiple c or_other", "name": "m", "label": "M"},
                {"type": "audit", "name": "audit", "parameters": "track-changes=true"}],
     "choices": [{"list_name": "c", "name": "a", "label::en": "A", "label::fr": "Af", "media::image": "a.png"}],
     "settings": [{"form_title": "T", "form_id": "F", "version": "3", "instance_name": "${q}", "public_key": "K", "submission_url": "http://x",
                   "style": "pages", "namespaces": 'zz="http://zz.example"', "attribute::zz:a": "1", "default_language": "en"}]},
]


CH2 = [{"list_name": "c", "name": "x", "label": "X"}, {"list_name": "c", "name": "y", "label": "Y"}]
# extra choices columns whose names look like fields of the survey element classes
COLNAMES = ["parent", "extra_data", "type", "hint", "bind", "itemset", "sms_field", "sms_option", "_x", "name2", "label2", "value", "instance", "control",
            "default", "query", "list_name2", "relevant", "required", "calculation", "constraint", "trigger", "parameters", "appearance", "action"]
LEGACY = {
    "phone-number-hint": {"survey": [{"type": "phone number", "name": "p", "label": "P", "hint": "H"}, {"type": "phone number", "name": "p2", "label": "P2"}]},
    "osm+choices": {"survey": [{"type": "osm o", "name": "q", "label": "Q"}, {"type": "select_one c", "name": "s", "label": "S"}],
                    "osm": [{"list_name": "o", "name": "building", "label": "B"}, {"list_name": "o", "name": "kind", "label": "K"}], "choices": CH2},
    "osm-tags-choices": {"survey": [{"type": "osm o", "name": "q", "label": "Q"}],
                         "osm": [{"list_name": "o", "name": "building", "label": "B"}, {"list_name": "building", "name": "yes", "label": "Yes"}]},
    "range-decimal": {"survey": [{"type": "range", "name": "r", "label": "R", "parameters": "start=0.5 end=2.5 step=0.5"}, {"type": "note", "name": "n", "label": "N", "read_only": "no"},
                                 {"type": "calculate", "name": "k", "calculation": "1", "bind::type": "int"}, {"type": "text", "name": "t", "label": "T", "bind::type": "int", "body::tag": "input"}]},
    "entities-ns": {"survey": [{"type": "text", "name": "a", "label": "A", "save_to": "p"}], "entities": [{"list_name": "t", "label": "${a}"}],
                    "settings": [{"namespaces": 'zz="http://zz.example"'}]},
}
# dict input with explicitly empty cells inside grouped columns (a spreadsheet reader would drop them, the dict API keeps them)
for _i, _cells in enumerate([
        {"label::en": "A", "label::fr": ""}, {"label::en": "A", "hint::en": "", "hint::fr": "H"}, {"label": "A", "media::image::en": "", "media::image::fr": "a.png"},
        {"label::en": "", "label::fr": "Af", "constraint": ". != 1", "constraint_message::en": "", "constraint_message::fr": "M"}]):
    LEGACY[f"empty-nested-{_i}"] = {"survey": [{"type": "text", "name": "q", **_cells},
                                               {"type": "begin group", "name": "g", "label::en": "G", "label::fr": "", "bind::foo": "", "relevant": "${q} != ''"},
                                               {"type": "text", "name": "i", "label": "I", "instance::x": "", "body::y": ""}, {"type": "end group"}]}
LEGACY["zero-choice-column"] = {"survey": [{"type": "select_one c", "name": "s", "label": "S"}],
                                "choices": [{"list_name": "c", "name": "x", "label": "X", "w": "0"}, {"list_name": "c", "name": "y", "label": "Y", "w": "1"}]}
LEGACY["trigger-forms"] = {"survey": [{"type": "text", "name": "a", "label": "A"}, {"type": "calculate", "name": "k", "calculation": "now()", "trigger": "${a}"},
                                      {"type": "background-geopoint", "name": "bg", "trigger": "${a}"}, {"type": "text", "name": "t", "label": "T", "trigger": "${a}", "calculation": "1"}]}
LEGACY["group-body-last-saved"] = {"survey": [{"type": "text", "name": "q", "label": "Q"},
                                              {"type": "begin group", "name": "g", "label": "G", "body::acc": "${last-saved#q}", "appearance": "field-list"},
                                              {"type": "text", "name": "i", "label": "I"}, {"type": "end group"},
                                              {"type": "begin repeat", "name": "r", "label": "R", "body::acc": "${q}", "instance::x": "${q}"},
                                              {"type": "text", "name": "j", "label": "J", "body::acc": "${i}", "instance::y": "${last-saved#q}"}, {"type": "end repeat"}]}
KNOWN_LEGACY = {
    # explicitly empty cells of dict input (no spreadsheet reader produces them)
    "empty-title": {"survey": [{"type": "text", "name": "q", "label": "Q"}], "settings": [{"form_title": "", "form_id": "f1"}]},
    "empty-choice-column": {"survey": [{"type": "select_one c", "name": "s", "label": "S"}],
                            "choices": [{"list_name": "c", "name": "x", "label": "X", "w": "0"}, {"list_name": "c", "name": "y", "label": "Y", "w": ""}]},
    "add-none-option": {"survey": [{"type": "select_multiple c", "name": "s", "label": "S"}], "choices": CH2, "settings": [{"add_none_option": "yes"}]},
}


def gen_legacy(tier):
    for name, wb in LEGACY.items():
        yield {"g": "form", "name": "legacy:" + name, "wb": wb}
    for name, wb in KNOWN_LEGACY.items():
        yield {"g": "form", "name": "legacy:" + name, "wb": wb, "tag": name}
    cols = COLNAMES if tier == "thorough" else COLNAMES
    for col in cols:
        for filt in (False, True):
            sel = {"type": "select_one c", "name": "s", "label": "S"}
            if filt:
                sel["choice_filter"] = f"{col} = 'v0'"
            yield {"g": "form", "name": f"choice-col:{col}", "wb": {"survey": [sel], "choices": [dict(c, **{col: f"v{i}"}) for i, c in enumerate(CH2)]}}
    for a, b in ((a, b) for i, a in enumerate(COLNAMES[:8]) for b in COLNAMES[i + 1:8]):
        yield {"g": "form", "name": f"choice-cols:{a}+{b}", "wb": {"survey": [{"type": "select_one c", "name": "s", "label": "S"}],
                                                                   "choices": [dict(c, **{a: f"a{i}", b: f"b{i}"}) for i, c in enumerate(CH2)]}}


NEST_LEAVES = {
    "dyn-default": [{"type": "date", "name": "q", "label": "Q", "default": "today()"}, {"type": "integer", "name": "q2", "label": "Q2", "default": "1 + 1"}],
    "static-default": [{"type": "text", "name": "q", "label": "Q", "default": "abc"}],
    "trigger": [{"type": "text", "name": "q", "label": "Q"}, {"type": "calculate", "name": "k", "calculation": "now()", "trigger": "${q}"}],
    "logic": [{"type": "text", "name": "q", "label": "Q ${t0}", "relevant": "${t0} != ''", "constraint": ". != ${t0}", "constraint_message": "M ${t0}"}],
    "select": [{"type": "select_one c", "name": "q", "label": "Q", "choice_filter": "name != ${t0}", "parameters": "randomize=true"}, {"type": "select_multiple c or_other", "name": "q2", "label": "Q2"}],
    "ref-default": [{"type": "text", "name": "q", "label": "Q", "default": "${t0}"}],
}


def gen_nest(tier):
    """group / repeat / loop containers nested up to depth 2 (3 when thorough) around leaves whose output depends on the kind of their ancestors"""
    kinds = ("group", "repeat", "loop")
    depth = 2 if tier == "quick" else 3
    for d in range(1, depth + 1):
        for chain in itertools.product(kinds, repeat=d):
            for leaf, qs in NEST_LEAVES.items():
                rows = [dict(q) for q in qs]
                for i, k in enumerate(reversed(chain)):
                    ty = "begin loop over c" if k == "loop" else f"begin {k}"
                    rows = [{"type": ty, "name": f"w{d - i}", "label": f"W{d - i}"}, *rows, {"type": f"end {k}"}]
                yield {"g": "form", "name": f"nest:{'>'.join(chain)}:{leaf}", "wb": {"survey": [{"type": "text", "name": "t0", "label": "T0"}, *rows], "choices": CH2}}


def _pathforms():
    return [*EXTRA, *C13.RICH[:4], *LEGACY.values()]


def gen_pathseq(tier):
    """dump to a file, load from it, dump another survey to the *same* path, load again: each load gives the survey just dumped"""
    n = len(_pathforms())
    for i in range(n):
        for j in range(n):
            for via in ("json_dump", "to_json"):
                yield {"g": "pathseq", "a": i, "b": j, "via": via}
                if i != j:
                    yield {"g": "pathseq", "a": i, "b": j, "via": via, "third": True}


def check_pathseq(case):
    import os
    import shutil
    import tempfile

    from pyxform.builder import create_survey_element_from_json

    d = tempfile.mkdtemp(prefix="c16.", dir=os.environ.get("VERIF_WORK", "/var/tmp"))
    viol = []
    try:
        path = os.path.join(d, "form.json")
        seq = [case["a"], case["b"]] + ([case["a"]] if case.get("third") else [])
        for step, k in enumerate(seq):
            out = run_convert(_pathforms()[k])
            if out.kind != "ok":
                return {"outcome": out.kind, "nt": False, "viol": [], "tr": 1}
            sv = out.result._survey
            if case["via"] == "json_dump":
                sv.json_dump(path)
            else:
                with open(path, "w", encoding="utf-8") as f:
                    f.write(sv.to_json())
            back = create_survey_element_from_json(path)
            x = back.to_xml(validate=False, pretty_print=False)
            if x != out.xform:
                viol.append((f"path-reload-gives-another-survey:step{step + 1}", first_diff(out.xform, x)))
                break
    finally:
        shutil.rmtree(d, ignore_errors=True)
    return {"outcome": "ok", "nt": not viol and len(set(seq)) > 1, "viol": viol, "tr": len(seq) * 3}


def gen_forms(tier):
    for name, wb in [(f"extra:{i}", w) for i, w in enumerate(EXTRA)] + [(f"rich:{i}", w) for i, w in enumerate(C13.RICH)] + C12.base_forms(tier):
        yield {"g": "form", "name": name, "wb": wb}
    for c in C01.gen_layouts(tier):
        yield {"g": "form", "name": "layout", "wb": c["wb"]}


def gen_grid(tier):
    k = 2 if tier == "quick" else 3
    for combo in grid.subsets(grid.cells(True), k):
        for dl in (None, "en"):
            yield {"g": "grid", "cells": [list(c) for c in combo], "dl": dl}


def gen_corpus(tier):
    """the frozen corpus of realistic workbooks (xmc/corpus.py): both round trips for every accepted form"""
    from xmc import corpus

    for cid, name, wb in corpus.forms():
        yield {"g": "corpus", "name": name, "wb": wb}


SPACE = GenSpace({"corpus": gen_corpus, "pathseq": gen_pathseq, "nest": gen_nest, "legacy": gen_legacy, "forms": gen_forms, "grid": gen_grid}, chunk=200)
blocks = SPACE.blocks
expand = SPACE.expand


def required_outcomes(tier):
    return {"ok"}


def first_diff(a, b):
    i = next((i for i, (x, y) in enumerate(zip(a, b)) if x != y), min(len(a), len(b)))
    return f"at {i}: ...{a[max(0, i - 70):i + 70]!r} vs ...{b[max(0, i - 70):i + 70]!r}"


def lost_kind(a, b):
    """classify what the reloaded XForm lacks, for the finding signature"""
    import re

    ta = set(re.findall(r"<(\w[\w:]*)", a))
    for probe, name in (("<bind", "bind"), ("<setvalue", "setvalue"), ("<itext", "itext"), ("<instance", "instance")):
        if a.count(probe) != b.count(probe):
            return f"{name}-count"
    if len(a) > len(b):
        return "content-lost"
    return "content-changed"


def check_one(case):
    from pyxform.builder import create_survey_element_from_dict

    if case["g"] == "pathseq":
        return check_pathseq(case)
    if case["g"] == "grid":
        wb, kw = grid.build([tuple(c) for c in case["cells"]], case["dl"])
    else:
        wb, kw = case["wb"], {}
    out = run_convert(wb, **kw)
    ntr = sum(len(v) for v in wb.values() if isinstance(v, list))
    if out.kind != "ok":
        return {"outcome": out.kind, "nt": False, "viol": [], "tr": ntr}
    viol = []
    direct = out.xform
    tag = case["g"]
    sfx = f":{case['tag']}" if case.get("tag") else ""
    # (1) workbook JSON -> text -> dict -> survey -> XForm
    try:
        s1 = create_survey_element_from_dict(json.loads(json.dumps(out.result._pyxform)))
        x1 = s1.to_xml(validate=False, pretty_print=False)
        if x1 != direct:
            viol.append((f"workbook-json-reload:{lost_kind(direct, x1)}{sfx}", first_diff(direct, x1)))
    except Exception as e:  # noqa: BLE001
        viol.append((f"workbook-json-reload-exception:{type(e).__name__}", str(e)[:200]))
    # (2) survey.to_json_dict -> text -> survey -> to_json_dict / XForm
    try:
        d1 = out.result._survey.to_json_dict()
        d1 = json.loads(json.dumps(d1))
        s2 = create_survey_element_from_dict(json.loads(json.dumps(d1)))
        d2 = json.loads(json.dumps(s2.to_json_dict()))
        if d2 != d1:
            viol.append((f"survey-json-dump-not-stable{sfx}", first_diff(json.dumps(d1, sort_keys=True), json.dumps(d2, sort_keys=True))))
        x2 = s2.to_xml(validate=False, pretty_print=False)
        if x2 != direct:
            viol.append((f"survey-json-reload:{lost_kind(direct, x2)}{sfx}", first_diff(direct, x2)))
    except Exception as e:  # noqa: BLE001
        viol.append((f"survey-json-reload-exception:{type(e).__name__}", str(e)[:200]))
    rich = any(k in json.dumps(wb) for k in ("relevant", "parameters", "::", "trigger", "default", "or_other", "entities", '"x"'))
    return {"outcome": "ok", "nt": rich and not viol, "viol": viol, "tr": ntr}

# as-built additions of the seventh wave (reported with the bound in the evidence)
BOUND = {k: v + "; seventh wave: " + 'the frozen corpus through both round trips' for k, v in BOUND.items()}
