"""C14 - conversion is a pure function of its input.

Four exhaustive sub-explorations over a driver alphabet of small forms built to collide on every
shared object found in the code (DESIGN.md section 4, C14):
  seed   every driver form under every PYTHONHASHSEED of a seed set, in fresh sub-processes; byte identity;
         the run records which iteration orders of the probe sets it has realised (ordering cover)
  hist   every sequence of <= 3 conversions in one process (cold and warm caches), each result compared
         with the solo fresh-process result; TMPDIR empty after every step; module-level containers digested
  regen  every sequence of <= 3 operations {to_xml compact, to_xml pretty, to_json_dict, xml()} on one survey
  sched  two (three) real threads converting forms under a cooperative baton scheduler driven by
         sys.settrace line events: all schedules with <= 1 preemption (quick: preemption points deduplicated
         by code location; thorough: every point, plus 2 preemptions at call granularity under a cap)
Every execution happens in a forked child of the (single-threaded, warmed) worker, so that all executions
start from the identical process state.
"""

import hashlib
import itertools
import json
import os
import subprocess
import sys
import tempfile

from xmc import sched as S
from xmc.engine import REPO, VERIF

ID = "C14"
LEVEL = "model_checking"
TECHNIQUE = ("stateless model checking of the implementation: preemption-bounded exploration of real-thread schedules under a cooperative scheduler "
             "(sys.settrace line events as scheduling points, CHESS-style iterative context bounding), exhaustive conversion histories and "
             "re-generation sequences up to depth 3 in forked children of one process state, and a PYTHONHASHSEED sweep with an ordering-cover "
             "argument; byte comparison with solo fresh-process results")
CLAIM = ("Every schedule with at most one preemption (at the stated granularity) of two threads converting driver forms, every history of up to three "
         "conversions from cold and warm caches, every sequence of up to three re-generation operations on one survey object and every hash seed of "
         "the seed set is executed on the real code; every result must be byte-identical (XForm, warnings, itemsets) to the solo fresh-process result, "
         "no temporary file may survive a step, and no schedule may deadlock.")
RULE = ("case = (pair of forms, cache state, first thread, preemption point k) | history | operation sequence | (seed); non-trivial = a schedule whose "
        "preemption actually fired between two points of the preempted thread, a history/sequence of length >= 2, or a seed whose probe-set "
        "orderings differ from seed 0; distinct by canonical case hash")
ASSUMPTIONS = [
    "scheduling points are Python line events in pyxform/** and in re.Scanner.scan; a race needing a switch inside one line is below the granularity",
    "2^32 hash seeds cannot be enumerated: the seed set is justified by the orderings of all <=3-subsets of the probe vocabulary that the run observed",
    "solo reference = one conversion in a fresh interpreter with PYTHONHASHSEED=0",
]
BOUND = {
    "quick": "seeds 0..47; histories depth<=3 over 8 forms (cold) + depth<=2 (warm); regen depth<=3 x 4 ops x 10 forms; schedules: 6 pairs cold + 1 warm, <=1 preemption at the first occurrence of every distinct (line, caller, caller's caller) of either thread, bound 0 both orders",
    "thorough": "seeds 0..127; histories depth<=3 cold and warm; schedules: all unordered pairs of the 11 driver forms incl. self-pairs, cold and warm, <=1 preemption at the first and last occurrence of every distinct line, and at every line point for the 7 collision-prone pairs (cold); 3-thread one-preemption for 2 triples; 2 preemptions at call granularity for 4 pairs (location-deduplicated)",
}

BOUND = {k: v + "; plus 13 further driver forms (cells consumed while reading, references in section body attributes, or_other with translations and its twin without or_other, pulldata in every bind attribute, defaulted range parameters, two untagged languages in either column order, both id columns, four refused forms whose error message lists several things) in the seed sweep, in depth-3 histories among themselves and depth-2 with every driver, in regeneration; re-use: the same workbook object converted 3 times, and alternated with another form" for k, v in BOUND.items()}

# ------------------------------------------------------------------ driver alphabet -------
CH = [{"list_name": "c", "name": "x", "label": "X"}, {"list_name": "c", "name": "y", "label": "Y"}]
FORMS = {
    # same xpaths, group vs repeat structure (is_parent_a_repeat / share_same_repeat_parent caches)
    "grp": {"survey": [{"type": "begin group", "name": "g", "label": "G"}, {"type": "text", "name": "q1", "label": "Q1"},
                       {"type": "integer", "name": "q2", "label": "Q2 ${q1}", "relevant": "${q1} != ''", "constraint": ". > 1 and ${q1} != 'a'"},
                       {"type": "end group"}, {"type": "calculate", "name": "k", "calculation": "${q2} + 1"}],
            "settings": [{"instance_name": "concat('grp-', ${q1})", "form_id": "grp_form", "version": "11"}]},
    "rep": {"survey": [{"type": "begin repeat", "name": "g", "label": "G"}, {"type": "text", "name": "q1", "label": "Q1"},
                       {"type": "integer", "name": "q2", "label": "Q2 ${q1}", "relevant": "${q1} != ''", "constraint": ". > 1 and ${q1} != 'a'"},
                       {"type": "begin repeat", "name": "h", "label": "H"}, {"type": "text", "name": "q3", "label": "Q3", "default": "${q1}", "relevant": "${q2} > 1"},
                       {"type": "end repeat"}, {"type": "end repeat"}, {"type": "calculate", "name": "k", "calculation": "count(${q2}) + 1"}],
            "settings": [{"instance_name": "concat('rep-', ${k})", "form_id": "rep_form", "public_key": "PK", "submission_url": "https://x.example/s"}]},
    "rep2": {"survey": [{"type": "text", "name": "t", "label": "T"}, {"type": "begin repeat", "name": "r", "label": "R", "repeat_count": "${t}"},
                        {"type": "text", "name": "a", "label": "A"}, {"type": "begin group", "name": "gg", "label": "GG"},
                        {"type": "text", "name": "b", "label": "B ${a}", "relevant": "${a} != ''", "calculation": "concat(${a}, ${t})"},
                        {"type": "end group"}, {"type": "end repeat"}]},
    # labels with instance() expressions and references (shared re.Scanner, parse_expression cache, token positions)
    "inst": {"survey": [{"type": "text", "name": "q1", "label": "Q1"}, {"type": "select_one c", "name": "s", "label": "S"},
                        {"type": "note", "name": "n", "label": "instance('c')/root/item[name = ${q1}]/label y ${s} y"},
                        {"type": "calculate", "name": "k", "calculation": "instance('c')/root/item[name = ${s}]/label"}], "choices": CH},
    "inst2": {"survey": [{"type": "text", "name": "a", "label": "A"}, {"type": "select_one c", "name": "s", "label": "S"},
                         {"type": "note", "name": "n", "label": "z instance('c')/root/item[name = ${a}]/label ${a}", "hint": "${s} and ${a}"},
                         {"type": "integer", "name": "i", "label": "I", "constraint": ". > 1 and ${a} != 'a'", "relevant": "${a} != ''"}], "choices": CH},
    # or_other on a shared list (module-level OR_OTHER_CHOICE), choice filter, randomize
    "other": {"survey": [{"type": "select_one c or_other", "name": "s1", "label": "S1"}, {"type": "select_multiple c or_other", "name": "s2", "label": "S2"},
                         {"type": "select_one c", "name": "s3", "label": "S3", "parameters": "randomize=true seed=3"}], "choices": CH},
    # entities + namespaces (get_nsmap mutation)
    "ent": {"survey": [{"type": "text", "name": "a", "label": "A", "save_to": "p"}, {"type": "text", "name": "b", "label": "B", "instance::zz:u": "1"}],
            "entities": [{"list_name": "trees", "label": "${a}"}],
            "settings": [{"namespaces": 'zz="http://zz.example" yy="http://yy.example"', "form_title": "T"}]},
    # an entity *update* declaration (entity_id, update_if, no label): next to "ent" (create) it exercises everything the two kinds share
    "ent2": {"survey": [{"type": "text", "name": "eid", "label": "E"}, {"type": "text", "name": "c", "label": "C", "save_to": "pc"}],
             "entities": [{"list_name": "shrubs", "entity_id": "${eid}", "update_if": "${c} != ''"}]},
    # translations: hint + guidance padded into another language, media, choices translated
    "tr": {"survey": [{"type": "text", "name": "q", "label::English (en)": "Q", "hint::English (en)": "H ${q2}", "guidance_hint::English (en)": "G",
                       "media::image::English (en)": "a.png"},
                      {"type": "text", "name": "q2", "label::French (fr)": "Q2", "constraint_message::French (fr)": "m", "constraint": ". != ''"},
                      {"type": "select_one c", "name": "s", "label::English (en)": "S", "label::French (fr)": "Sf"}],
           "choices": [{"list_name": "c", "name": "x", "label::English (en)": "X", "label::French (fr)": "Xf", "media::audio::French (fr)": "x.mp3"},
                       {"list_name": "c", "name": "y", "label::English (en)": "Y"}],
           "settings": [{"default_language": "French (fr)"}]},
    # search() select with translations, plus pulldata / last-saved (instances)
    "search": {"survey": [{"type": "select_one c", "name": "s", "label::English (en)": "S", "appearance": "search('f')"},
                          {"type": "text", "name": "p", "label::English (en)": "P", "calculation": "pulldata('f', 'a', 'b', ${s})", "default": "${last-saved#s}"}],
               "choices": [{"list_name": "c", "name": "n", "label::English (en)": "N", "label::French (fr)": "Nf"}]},
    # a default_language that names no translation of the form; a last-saved reference (shared instance declaration)
    "dl": {"survey": [{"type": "text", "name": "q", "label::English (en)": "Q", "hint::English (en)": "H"},
                      {"type": "integer", "name": "p", "label::English (en)": "P", "default": "${last-saved#q}", "relevant": "${last-saved#q} != ''"}],
           "settings": [{"default_language": "English"}]},
    # external choices -> itemsets CSV; select from file
    "ext": {"survey": [{"type": "text", "name": "q", "label": "Q"}, {"type": "select_one_external e", "name": "s", "label": "S", "choice_filter": "state=${q}"},
                       {"type": "select_one_from_file f.csv", "name": "ff", "label": "F", "choice_filter": "a=${q}"}],
            "external_choices": [{"list_name": "e", "name": "p", "label": "P", "state": "s1"}, {"list_name": "e", "name": "r", "state": "s2", "zone": "z"}]},
}
NAMES = list(FORMS)  # the drivers of the schedule exploration
# further drivers for the seed sweep, histories, regeneration and object re-use (not part of the schedule pairs)
XFORMS = {
    # pulldata() in several bind attributes of one question and in a choice filter: one csv instance per file, in a fixed order
    "pd": {"survey": [{"type": "text", "name": "a", "label": "A", "calculation": "pulldata('f1', 'x', 'k', 1)", "constraint": "pulldata('f2', 'x', 'k', .)",
                       "relevant": "pulldata('f3', 'x', 'k', 1) = 1", "required": "pulldata('f4', 'x', 'k', 1) = 1", "read_only": "pulldata('f5', 'x', 'k', 1) = 1"},
                      {"type": "select_one c", "name": "s", "label": "S", "choice_filter": "name = pulldata('f6', 'x', 'k', ${a})", "default": "pulldata('f7', 'x', 'k', 1)"}],
           "choices": CH},
    # range questions that leave some or all of start/end/step to the defaults; image/audio/geopoint parameters
    "range": {"survey": [{"type": "range", "name": "r0", "label": "R0"}, {"type": "range", "name": "r1", "label": "R1", "parameters": "end=7"},
                         {"type": "range", "name": "r2", "label": "R2", "parameters": "step=2 start=2"},
                         {"type": "image", "name": "im", "label": "I", "parameters": "max-pixels=100 app=com.x.y"},
                         {"type": "geopoint", "name": "gp", "label": "G", "parameters": "allow-mock-accuracy=true capture-accuracy=5 warning-accuracy=9"},
                         {"type": "audit", "name": "audit", "parameters": "location-priority=balanced location-min-interval=1 location-max-age=2 track-changes=true identify-user=true"}]},
    # two languages without an IANA subtag, columns in either order (the warning lists them in the form's own order)
    "lang2": {"survey": [{"type": "text", "name": "q", "label::Foo": "Qf", "label::Bar": "Qb", "hint::Bar": "Hb"}]},
    "lang2r": {"survey": [{"type": "text", "name": "q", "label::Bar": "Qb", "label::Foo": "Qf", "hint::Foo": "Hf"}]},
    # both id columns in the settings sheet (a warning, one of them is dropped)
    "dupid": {"survey": [{"type": "text", "name": "q", "label": "Q"}], "settings": [{"id_string": "x1", "form_id": "x2", "form_title": "T"}],
              "settings_header": [{"id_string": None, "form_id": None, "form_title": None}]},
}
# or_other next to translated columns (a warning), and a form with the very same headers but no or_other (no such warning)
_OTR_CH = [{"list_name": "c", "name": "x", "label::English (en)": "X", "label::French (fr)": "Xf"}, {"list_name": "c", "name": "y", "label::English (en)": "Y", "label::French (fr)": "Yf"}]
XFORMS["otr"] = {"survey": [{"type": "select_one c or_other", "name": "s", "label::English (en)": "S", "label::French (fr)": "Sf"}], "choices": _OTR_CH}
XFORMS["otr2"] = {"survey": [{"type": "select_one c", "name": "s", "label::English (en)": "S", "label::French (fr)": "Sf"}], "choices": _OTR_CH}
# references inside body / instance attributes of sections (resolved while the body is generated: the element's own cells stay as written)
XFORMS["glast"] = {"survey": [{"type": "text", "name": "q", "label": "Q"},
                              {"type": "begin group", "name": "g", "label": "G", "body::acc": "${last-saved#q}"}, {"type": "text", "name": "i", "label": "I"}, {"type": "end group"},
                              {"type": "begin repeat", "name": "r", "label": "R", "body::acc": "${q}"}, {"type": "text", "name": "j", "label": "J", "instance::y": "${q}"}, {"type": "end repeat"}]}
# sheets with canonical, ungrouped headers only, holding cells that the converter consumes while reading (disabled, 'list name')
XFORMS["dis"] = {"survey": [{"type": "text", "name": "q", "label": "Q"}, {"type": "integer", "name": "old", "label": "O", "disabled": "yes"},
                            {"type": "select_one c", "name": "s", "label": "S", "disabled": "no"}, {"type": "note", "label": "unnamed note"}, {"type": "audit"}],
                 "choices": [{"list name": "c", "name": "x", "label": "X"}, {"list name": "c", "name": "y", "label": "Y"}],
                 "settings": [{"form_title": "T", "form_id": "dis"}]}
# forms that are refused: the message is part of what a caller sees, and it must not depend on the hash seed or the history either
RFORMS = {
    "badext": {"survey": [{"type": "select_one_from_file cities.txt", "name": "s", "label": "S"}]},
    "searchshared": {"survey": [{"type": "select_one c", "name": "s1", "label": "S", "appearance": "search('f')"}, {"type": "select_one c", "name": "s2", "label": "S", "appearance": "search('f')"},
                                {"type": "select_one c", "name": "n1", "label": "N"}, {"type": "select_multiple c", "name": "n2", "label": "N"}, {"type": "select_one c", "name": "n3", "label": "N", "parameters": "randomize=true"}],
                     "choices": CH},
    "dupnames": {"survey": [{"type": "text", "name": n, "label": n} for n in ("b", "a", "c", "a", "b", "c")]},
    "badparams": {"survey": [{"type": "text", "name": "q", "label": "Q", "parameters": "zeta=1 alpha=2 rows=3 mid=4"}]},
}
XFORMS.update(RFORMS)
FORMS.update(XFORMS)
XNAMES = list(XFORMS)
ALL = NAMES + XNAMES
HIST = ["grp", "rep", "inst", "other", "ent", "ent2", "tr", "search", "ext", "dl"]
PROBE = ["long", "guidance", "image", "audio", "video", "big-image", "default", "English (en)", "French (fr)", "label", "hint", "name", "list_name", "state", "zone",
         "start", "end", "step", "calculate", "constraint", "readonly", "required", "relevant", "Foo", "Bar"]

QUICK_PAIRS = [("grp", "rep"), ("rep", "rep2"), ("inst", "inst2"), ("inst", "inst"), ("other", "ent"), ("tr", "search"), ("search", "dl"), ("ent", "ent2")]
QUICK_WARM = [("rep", "rep2")]
TRIPLES = [("grp", "rep", "rep2"), ("inst", "inst2", "inst")]
B2_PAIRS = [("rep", "rep2"), ("inst", "inst2"), ("grp", "rep"), ("other", "ent")]

_CHILD_SRC = r"""
import json, sys, os
sys.path.insert(0, {repo!r})
os.environ.setdefault("PYTHONDONTWRITEBYTECODE", "1")
import copy, itertools
from pyxform.xls2xform import convert
forms = json.loads(sys.stdin.read())
out = {{}}
for name, wb in forms["forms"].items():
    # each form in its own forked copy of this interpreter: same hash seed, no history from the other forms
    rfd, wfd = os.pipe()
    pid = os.fork()
    if pid == 0:
        os.close(rfd)
        try:
            r = convert(copy.deepcopy(wb))
            data = json.dumps([r.xform, list(r.warnings), r.itemsets])
        except BaseException as e:
            data = json.dumps(["EXC " + type(e).__name__ + ": " + str(e), [], None])
        with os.fdopen(wfd, "w") as f:
            f.write(data)
        os._exit(0)
    os.close(wfd)
    with os.fdopen(rfd) as f:
        out[name] = json.loads(f.read())
    os.waitpid(pid, 0)
perms = {{}}
for combo in forms["probe"]:
    perms["|".join(combo)] = list(set(combo))
print(json.dumps({{"res": out, "perms": perms}}))
"""


def fresh(forms, seed, probe=()):
    """convert `forms` (name -> workbook) in a fresh interpreter under PYTHONHASHSEED=seed"""
    env = dict(os.environ, PYTHONHASHSEED=str(seed), PYTHONDONTWRITEBYTECODE="1")
    env.pop("VERIF_SCHEDLOCK", None)
    r = subprocess.run([sys.executable, "-c", _CHILD_SRC.format(repo=REPO)], input=json.dumps({"forms": forms, "probe": list(probe)}),
                       capture_output=True, text=True, env=env, timeout=300)
    if r.returncode != 0:
        raise RuntimeError(f"fresh interpreter failed (seed {seed}): {r.stderr[-800:]}")
    return json.loads(r.stdout)


_REF = None
_TRACE = {}


def ref():
    """solo fresh-process results, one interpreter per form (PYTHONHASHSEED=0)"""
    global _REF
    if _REF is None:
        from concurrent.futures import ThreadPoolExecutor

        with ThreadPoolExecutor(len(ALL)) as ex:
            rs = list(ex.map(lambda n: fresh({n: FORMS[n]}, 0)["res"][n], ALL))
        _REF = dict(zip(ALL, rs))
    return _REF


def convert_form(name):
    import copy

    from pyxform.xls2xform import convert

    try:
        r = convert(copy.deepcopy(FORMS[name]))
    except Exception as e:  # noqa: BLE001 - a refused form: its message is the observation
        return ["EXC " + type(e).__name__ + ": " + str(e), [], None]
    return [r.xform, list(r.warnings), r.itemsets]


def clear_caches():
    import functools

    n = 0
    for mn, m in list(sys.modules.items()):
        if mn.startswith("pyxform") and m is not None:
            for v in list(vars(m).values()):
                if isinstance(v, functools._lru_cache_wrapper):
                    v.cache_clear()
                    n += 1
    return n


def warm_up():
    """all driver forms converted once in this process (lazy imports done, caches warm)"""
    for n in ALL:
        convert_form(n)


def containers_digest():
    """diagnostic: digest of the module-level mutable containers of pyxform.*"""
    out = {}
    for mn, m in list(sys.modules.items()):
        if mn.startswith("pyxform") and m is not None:
            for k, v in list(vars(m).items()):
                if isinstance(v, (dict, list, set)) and not k.startswith("__"):
                    try:
                        out[f"{mn}.{k}"] = hashlib.blake2b(repr(sorted(v, key=repr) if isinstance(v, set) else v).encode("utf-8", "replace"), digest_size=6).hexdigest()
                    except Exception:  # noqa: BLE001
                        pass
    return out


PYX_DIR = os.path.join(os.path.realpath(REPO), "pyxform") + os.sep


def traced(code):
    fn = code.co_filename
    return fn.startswith(PYX_DIR) or (code.co_name == "scan" and fn.endswith(os.path.join("re", "__init__.py")))


def diff_sig(got, want):
    for part, g, w in zip(("xform", "warnings", "itemsets"), got, want):
        if g != w:
            if isinstance(g, str) and isinstance(w, str):
                i = next((i for i, (a, b) in enumerate(zip(g, w)) if a != b), min(len(g), len(w)))
                return part, f"at {i}: got ...{g[max(0, i - 60):i + 60]!r} want ...{w[max(0, i - 60):i + 60]!r}"
            return part, f"got {str(g)[:200]} want {str(w)[:200]}"
    return None, ""


# ------------------------------------------------------------------ blocks / expand -------
def solo_trace(name, warm):
    """location of every scheduling point of a solo conversion from the initial (cold|warm) state"""
    key = (name, warm)
    if key not in _TRACE:
        def job():
            if not warm:
                clear_caches()
            sc = S.Sched(1, [0], [], traced, record=True)
            res, hung = sc.run([lambda: convert_form(name)], 0)
            return sc.trace[0], res[0]

        tr, res = S.in_child(job)
        _TRACE[key] = tr
    return _TRACE[key]


def dedup_ks(trace, both=False, chain=True):
    """preemption indices deduplicated by code location: first (and optionally last) occurrence of every distinct line"""
    first, last = {}, {}
    for k, loc in enumerate(trace, 1):
        # the same line reached through another caller chain (two frames up) is another point: shared helpers such as the
        # expression scanner are entered from several places, and only some of them use what a racing thread can clobber
        key = (loc[0], loc[1], *loc[3:5]) if chain else (loc[0], loc[1])
        first.setdefault(key, k)
        last[key] = k
    return sorted(set(first.values()) | (set(last.values()) if both else set()))


def call_ks(name, warm):
    """call-granularity point count of a solo run and location-deduplicated indices"""
    key = (name, warm, "call")
    if key not in _TRACE:
        def job():
            if not warm:
                clear_caches()
            sc = S.Sched(1, [0], [], traced, granularity="call", record=True)
            sc.run([lambda: convert_form(name)], 0)
            return sc.trace[0]

        _TRACE[key] = S.in_child(job)
    tr = _TRACE[key]
    first = {}
    for k, loc in enumerate(tr, 1):
        first.setdefault((loc[0], loc[2]), k)
    return sorted(first.values())


def _prepare():
    from xmc.engine import bind_repo

    bind_repo()
    ref()
    warm_up()


# ---- the frozen corpus of realistic workbooks (xmc/corpus.py) as one more set of driver forms ----
_CFORMS = None
_CREF = None


def cforms():
    global _CFORMS
    if _CFORMS is None:
        from xmc import corpus

        _CFORMS = {cid: wb for cid, _, wb in corpus.forms()}
    return _CFORMS


def cref():
    """solo results of every corpus form: each converted in its own forked copy of a fresh interpreter (PYTHONHASHSEED=0)"""
    global _CREF
    if _CREF is None:
        _CREF = fresh(cforms(), 0)["res"]
    return _CREF


def check_cseed(case):
    got = fresh(cforms(), case["seed"])["res"]
    R = cref()
    viol = []
    for n in R:
        part, d = diff_sig(got[n], R[n])
        if part:
            viol.append((f"hash-seed:{part}-differs:corpus", f"PYTHONHASHSEED={case['seed']} corpus form {n}: {d}"))
    return {"outcome": "seed:same" if not viol else "seed:differs", "nt": not viol, "viol": viol[:3], "tr": len(R)}


def check_chist(case):
    """one long history: every corpus form converted in turn in one process (file order, reverse order, or each form's own
    workbook object twice in a row); every result must be the solo fresh-process result of that form"""
    R = cref()
    F = cforms()
    order = list(F)
    if case["mode"] == "rev":
        order.reverse()

    def job():
        import copy

        from pyxform.xls2xform import convert

        clear_caches()
        td = tempfile.mkdtemp(prefix="c14.", dir="/var/tmp")
        tempfile.tempdir = td
        out = []
        for n in order:
            obj = copy.deepcopy(F[n])
            for _ in range(2 if case["mode"] == "twice" else 1):
                try:
                    r = convert(obj)
                    res = [r.xform, list(r.warnings), r.itemsets]
                except Exception as e:  # noqa: BLE001 - a refused form: its message is the observation
                    res = ["EXC " + type(e).__name__ + ": " + str(e), [], None]
                out.append((n, res))
        files = sorted(os.listdir(td))
        import shutil

        shutil.rmtree(td, ignore_errors=True)
        return out, files

    out, files = S.in_child(job, timeout=300)
    viol = []
    seen = set()
    for i, (n, res) in enumerate(out):
        part, d = diff_sig(res, R[n])
        if part:
            which = "second-conversion-of-the-same-object" if n in seen else "after-other-forms"
            viol.append((f"history:{part}-differs:corpus:{which}", f"mode={case['mode']} step {i} corpus form {n}: {d}"))
        seen.add(n)
    if files:
        viol.append(("history:tmp-residue:corpus", str(files)[:200]))
    return {"outcome": "hist:ok" if not viol else "hist:bad", "nt": not viol, "viol": viol[:3], "tr": len(out)}


def check_cregen(case):
    """every accepted corpus form: compact, pretty, compact again from the same survey object; and three generations of a
    survey rebuilt from the JSON form"""
    R = cref()
    n = case["form"]
    if R[n][0].startswith("EXC "):
        return {"outcome": "regen:refused-form", "nt": False, "viol": [], "tr": 1}

    def job():
        import copy

        from pyxform.builder import create_survey_element_from_dict
        from pyxform.xls2xform import convert

        r = convert(copy.deepcopy(cforms()[n]))
        sv = r._survey
        gens = []
        for pretty in (False, True, False, True):
            w = []
            gens.append((pretty, sv.to_xml(validate=False, pretty_print=pretty, warnings=w), w))
        sv2 = create_survey_element_from_dict(copy.deepcopy(r._pyxform))
        fresh_ = []
        for _ in range(3):
            w = []
            fresh_.append((sv2.to_xml(validate=False, pretty_print=False, warnings=w), w))
        return r.xform, gens, fresh_

    first_x, gens, fresh_ = S.in_child(job)
    viol = []
    if first_x != R[n][0]:
        viol.append(("regen:first-differs:corpus", n))
    if gens[0][1] != R[n][0] or gens[2][1] != R[n][0]:
        viol.append(("regen:compact-differs-after-regeneration:corpus", f"corpus form {n}: " + diff_sig([gens[2][1] if gens[0][1] == R[n][0] else gens[0][1]], [R[n][0]])[1]))
    if gens[1][1] != gens[3][1]:
        viol.append(("regen:p-not-stable:corpus", f"corpus form {n}"))
    if any(g[2] != gens[0][2] for g in gens[1:]):
        viol.append(("regen:warnings-differ-between-generations:corpus", f"corpus form {n}: {[g[2] for g in gens]!r}"[:300]))
    if any(f_ != fresh_[0] for f_ in fresh_[1:]):
        viol.append(("regen:generations-of-a-fresh-survey-differ:corpus", f"corpus form {n}"))
    return {"outcome": "regen:ok" if not viol else "regen:bad", "nt": not viol, "viol": viol[:3], "tr": 7}


def blocks(tier):
    _prepare()
    for s_ in ((1, 2, 3, 4, 5, 6) if tier == "quick" else range(1, 33)):
        yield ("cseed", s_)
    for mode in ("fwd", "rev", "twice"):
        yield ("chist", mode)
    for i in range(0, len(cforms()), 40):
        yield ("cregen", i)
    nseeds = 48 if tier == "quick" else 128
    for s in range(0, nseeds, 4):
        yield ("seed", s, min(nseeds, s + 4))
    hs = list(gen_hist(tier))
    for i in range(0, len(hs), 40):
        yield ("hist", i, min(len(hs), i + 40))
    rg = list(gen_regen(tier))
    for i in range(0, len(rg), 60):
        yield ("regen", i, min(len(rg), i + 60))
    ru = list(gen_reuse(tier))
    for i in range(0, len(ru), 30):
        yield ("reuse", i, min(len(ru), i + 30))
    if tier == "quick":
        plan = [(p, False) for p in QUICK_PAIRS] + [(p, True) for p in QUICK_WARM]
    else:
        pairs = [(a, b) for i, a in enumerate(NAMES) for b in NAMES[i:]]
        plan = [(p, w) for p in pairs for w in (False, True)]
    for (a, b), warm in plan:
        for first, nm in ((0, a), (1, b)):
            if a == b and first == 1:
                continue  # symmetric
            tr = solo_trace(nm, warm)
            if tier == "quick":
                ks = dedup_ks(tr)
            elif (a, b) in QUICK_PAIRS and not warm:
                ks = list(range(1, len(tr) + 1))  # every line point for the collision-prone pairs (cold caches)
            else:
                ks = dedup_ks(tr, both=True, chain=False)  # first and last occurrence of every distinct line
            for i in range(0, len(ks), 150):
                yield ("sched", [a, b], warm, first, ks[i:i + 150])
        yield ("sched0", [a, b], warm)
    for tri in (TRIPLES if tier == "thorough" else ()):
        for first in range(3):
            ks = dedup_ks(solo_trace(tri[first], False))
            for i in range(0, len(ks), 150):
                yield ("sched3", list(tri), first, ks[i:i + 150])
    if tier == "thorough":
        for a, b in B2_PAIRS:
            ka, kb = call_ks(a, False), call_ks(b, False)
            for k1 in ka:
                yield ("sched2", [a, b], k1, kb)


def gen_hist(tier):
    for warm in (False, True):
        depth = 3 if (tier == "thorough" or not warm) else 2
        for d in range(1, depth + 1):
            for seq in itertools.product(HIST, repeat=d):
                yield {"g": "hist", "seq": list(seq), "warm": warm}
    # the three extra drivers behind every other form (depth 2)
    for x in ("rep2", "inst2", *XNAMES):
        for y in ALL:
            yield {"g": "hist", "seq": [x, y], "warm": False}
            yield {"g": "hist", "seq": [y, x], "warm": False}
    for warm in (False, True):
        for seq in itertools.product(XNAMES, repeat=3):
            yield {"g": "hist", "seq": list(seq), "warm": warm}


OPS = ["xml_c", "xml_p", "json", "dom"]


def gen_regen(tier):
    for n in ALL:
        if n in RFORMS:
            continue
        for d in range(1, 4):
            for seq in itertools.product(OPS, repeat=d):
                if not any(o.startswith("xml") for o in seq[1:]) and d > 1:
                    continue  # nothing to compare after the first operation
                yield {"g": "regen", "form": n, "ops": list(seq)}


def gen_reuse(tier):
    """the caller's own workbook object handed to convert() again (no copy in between), alone and with another form converted in between"""
    for n in ALL:
        yield {"g": "reuse", "seq": [n, n, n]}
        for m in (ALL if tier == "thorough" else XNAMES):
            if m != n:
                yield {"g": "reuse", "seq": [n, m, n, m]}


def expand(block, tier):
    kind = block[0]
    if kind == "cseed":
        yield {"g": "cseed", "seed": block[1]}
        return
    if kind == "chist":
        yield {"g": "chist", "mode": block[1]}
        return
    if kind == "cregen":
        for n in list(cforms())[block[1]:block[1] + 40]:
            yield {"g": "cregen", "form": n}
        return
    if kind == "reuse":
        yield from itertools.islice(gen_reuse(tier), block[1], block[2])
        return
    if kind == "seed":
        for s in range(block[1], block[2]):
            yield {"g": "seed", "seed": s}
    elif kind == "hist":
        yield from itertools.islice(gen_hist(tier), block[1], block[2])
    elif kind == "regen":
        yield from itertools.islice(gen_regen(tier), block[1], block[2])
    elif kind == "sched":
        _, pair, warm, first, ks = block
        for k in ks:
            yield {"g": "sched", "forms": pair, "warm": warm, "pre": [[first, k]], "order": [0, 1]}
    elif kind == "sched0":
        _, pair, warm = block
        yield {"g": "sched", "forms": pair, "warm": warm, "pre": [], "order": [0, 1]}
        yield {"g": "sched", "forms": pair, "warm": warm, "pre": [], "order": [1, 0]}
    elif kind == "sched3":
        _, tri, first, ks = block
        others = [i for i in range(3) if i != first]
        for k in ks:
            for then in (others, others[::-1]):
                yield {"g": "sched", "forms": tri, "warm": False, "pre": [[first, k]], "order": [*then, first]}
    elif kind == "sched2":
        _, pair, k1, kb = block
        for k2 in kb:
            yield {"g": "sched", "forms": pair, "warm": False, "pre": [[0, k1], [1, k2]], "order": [0, 1], "gran": "call"}


def required_outcomes(tier):
    return {"seed:same", "hist:ok", "regen:ok", "sched:ok", "reuse:ok"}


# ------------------------------------------------------------------ executions ------------
def check_seed(case):
    probe = [list(c) for r in (2, 3) for c in itertools.combinations(PROBE, r)]
    got = fresh({n: FORMS[n] for n in ALL}, case["seed"], probe)
    viol = []
    R = ref()
    for n in ALL:
        part, d = diff_sig(got["res"][n], R[n])
        if part:
            viol.append((f"hash-seed:{part}-differs:{n}", f"PYTHONHASHSEED={case['seed']} {d}"))
    extra = {}
    for key, order in got["perms"].items():
        extra[f"perm:{key}:{'|'.join(order)}"] = 1
    base = fresh({}, 0, probe)["perms"] if case["seed"] else got["perms"]
    differs = sum(1 for k in base if base[k] != got["perms"][k])
    return {"outcome": "seed:same" if not viol else "seed:differs", "nt": differs > 0 and not viol, "viol": viol, "tr": len(ALL), "extra": extra}


def check_hist(case):
    R = ref()

    def job():
        if not case["warm"]:
            clear_caches()
        td = tempfile.mkdtemp(prefix="c14.", dir="/var/tmp")
        tempfile.tempdir = td
        d0 = containers_digest()
        out = []
        for n in case["seq"]:
            res = convert_form(n)
            out.append((res, sorted(os.listdir(td))))
        d1 = containers_digest()
        import shutil

        shutil.rmtree(td, ignore_errors=True)
        return out, sorted(k for k in d1 if d0.get(k) != d1[k])

    out, mutated = S.in_child(job)
    viol = []
    for i, (n, (res, files)) in enumerate(zip(case["seq"], out)):
        part, d = diff_sig(res, R[n])
        if part:
            prev = case["seq"][:i]
            viol.append((f"history:{part}-differs:{n}:after={'+'.join(prev) or 'none'}", f"warm={case['warm']} {d}"))
        if files:
            viol.append((f"history:tmp-residue:{n}", str(files)))
    return {"outcome": "hist:ok" if not viol else "hist:bad", "nt": len(case["seq"]) > 1 and not viol, "viol": viol[:3], "tr": len(case["seq"]),
            "extra": {f"mutated-container:{k}": 1 for k in mutated}}


def check_reuse(case):
    R = ref()

    def job():
        import copy

        from pyxform.xls2xform import convert

        objs = {n: copy.deepcopy(FORMS[n]) for n in set(case["seq"])}
        before = {n: json.dumps(o, sort_keys=True, default=str) for n, o in objs.items()}
        out = []
        for n in case["seq"]:
            try:
                r = convert(objs[n])
                out.append([r.xform, list(r.warnings), r.itemsets])
            except Exception as e:  # noqa: BLE001
                out.append(["EXC " + type(e).__name__ + ": " + str(e), [], None])
        changed = sorted(n for n, o in objs.items() if json.dumps(o, sort_keys=True, default=str) != before[n])
        return out, changed

    out, changed = S.in_child(job)
    viol = []
    for i, (n, res) in enumerate(zip(case["seq"], out)):
        part, d = diff_sig(res, R[n])
        if part:
            viol.append((f"reuse:{part}-differs:{n}:conversion#{case['seq'][:i].count(n) + 1}-of-the-same-object", d))
    return {"outcome": "reuse:ok" if not viol else "reuse:bad", "nt": not viol, "viol": viol[:3], "tr": len(case["seq"]),
            "extra": {f"input-object-changed:{n}": 1 for n in changed}}


def check_regen(case):
    R = ref()

    def job():
        import copy

        from pyxform.xls2xform import convert

        r = convert(copy.deepcopy(FORMS[case["form"]]))
        sv = r._survey
        out = []
        wlists = []
        for op in case["ops"]:
            if op == "xml_c":
                w = []
                out.append(("c", sv.to_xml(validate=False, pretty_print=False, warnings=w)))
                wlists.append(w)
            elif op == "xml_p":
                w = []
                out.append(("p", sv.to_xml(validate=False, pretty_print=True, warnings=w)))
                wlists.append(w)
            elif op == "json":
                out.append(("j", json.dumps(sv.to_json_dict(), sort_keys=True, default=str)))
            else:
                out.append(("d", sv.xml().toxml()))
        # the same on a survey object that has not generated anything yet (built from the JSON form): first vs later generations
        from pyxform.builder import create_survey_element_from_dict

        sv2 = create_survey_element_from_dict(copy.deepcopy(r._pyxform))
        fresh = []
        for _ in range(3):
            w = []
            x = sv2.to_xml(validate=False, pretty_print=False, warnings=w)
            fresh.append((x, w))
        wlists.append(("fresh", fresh))
        return r.xform, out, wlists

    first_x, out, wlists = S.in_child(job)
    viol = []
    n = case["form"]
    # each generation reports its warnings to the list it was given: the same ones every time
    fresh = wlists.pop()[1]
    for i, (x, w) in enumerate(fresh[1:], 1):
        if (x, w) != fresh[0]:
            part = "xform" if x != fresh[0][0] else "warnings"
            viol.append((f"regen:{part}-differ-between-generations-of-a-fresh-survey:{n}", f"generation #1 {fresh[0][1]!r} vs #{i + 1} {w!r}"[:300]))
            break
    for i, w in enumerate(wlists[1:], 1):
        if w != wlists[0]:
            viol.append((f"regen:warnings-differ-between-generations:{n}", f"generation #1 {wlists[0]!r} vs #{i + 1} {w!r}"[:300]))
            break
    if first_x != R[n][0]:
        viol.append((f"regen:first-differs:{n}", ""))
    seen = {}
    for i, (kind, val) in enumerate(out):
        if kind == "c" and val != R[n][0]:
            viol.append((f"regen:compact-differs-after:{'+'.join(case['ops'][:i]) or 'none'}:{n}", diff_sig([val], [R[n][0]])[1]))
        if kind in ("c", "p", "d") and kind in seen and seen[kind] != val:
            viol.append((f"regen:{kind}-not-stable-after:{'+'.join(case['ops'][:i])}:{n}", diff_sig([val], [seen[kind]])[1]))
        seen.setdefault(kind, val)
    return {"outcome": "regen:ok" if not viol else "regen:bad", "nt": len(case["ops"]) > 1 and not viol, "viol": viol[:3], "tr": len(case["ops"])}


def check_sched(case):
    R = ref()
    forms = case["forms"]
    pre = [tuple(p) for p in case["pre"]]
    gran = case.get("gran", "line")

    def job():
        if not case["warm"]:
            clear_caches()
        sc = S.Sched(len(forms), case["order"], pre, traced, granularity=gran)
        bodies = [(lambda nm=nm: convert_form(nm)) for nm in forms]
        first = pre[0][0] if pre else case["order"][0]
        res, hung = sc.run(bodies, first)
        return res, hung, sc.fired, sc.deadlock, sc.count

    res, hung, fired, deadlock, count = S.in_child(job)
    if hung:
        raise S.ChildFailure(f"threads {hung} still alive after the join timeout (not a verdict): case={case}")
    viol = []
    where = "none"
    if fired:
        f = fired[0]
        where = f"{os.path.relpath(f[2], os.path.realpath(REPO)) if f[2].startswith(os.path.realpath(REPO)) else os.path.basename(os.path.dirname(f[2])) + '/' + os.path.basename(f[2])}:{f[4]}"
    if deadlock:
        viol.append((f"deadlock:preempted-in:{where}", f"forms={forms} pre={pre}"))
    for i, (nm, r) in enumerate(zip(forms, res)):
        if r is None or r[0] != "ok":
            if not deadlock:
                viol.append((f"race:exception:preempted-in:{where}", f"thread {i} ({nm}): {r} forms={forms} pre={pre}"))
            continue
        part, d = diff_sig(r[1], R[nm])
        if part:
            viol.append((f"race:{part}-differs:preempted-in:{where}", f"thread {i} ({nm}) forms={forms} warm={case['warm']} pre={pre} fired={fired} {d}"))
    # determinism of the replayed prefix: the preempted thread must have reached its k-th point at the recorded location
    if pre and gran == "line" and len(pre) == 1 and fired:
        t, k = pre[0]
        tr = solo_trace(forms[t], case["warm"])
        if k <= len(tr) and (fired[0][2], fired[0][3]) != (tr[k - 1][0], tr[k - 1][1]):
            raise S.ChildFailure(f"prefix diverged: point {k} of {forms[t]} at {fired[0][2:]} but solo trace has {tr[k - 1]}")
    return {"outcome": "sched:ok" if not viol else "sched:bad", "nt": bool(fired) and not viol, "viol": viol[:2], "tr": sum(count),
            "extra": {"preemptions-fired": len(fired), f"preempted-in-file:{where.split(':')[0]}": 1 if fired else 0}}


def check_one(case):
    if _REF is None:
        _prepare()
    return {"seed": check_seed, "hist": check_hist, "regen": check_regen, "sched": check_sched, "reuse": check_reuse,
            "cseed": check_cseed, "chist": check_chist, "cregen": check_cregen}[case["g"]](case)


def extra_coverage(tier, tot):
    perms = [k for k in tot["extra"] if k.startswith("perm:")]
    by_set = {}
    for k in perms:
        _, key, order = k.split(":", 2)
        by_set.setdefault(key, set()).add(order)
    import math

    full = sum(1 for key, orders in by_set.items() if len(orders) == math.factorial(len(key.split("|"))))
    files = {k.split(":", 1)[1]: v for k, v in tot["extra"].items() if k.startswith("preempted-in-file:") and v}
    mutated = sorted(k.split(":", 1)[1] for k in tot["extra"] if k.startswith("mutated-container:"))
    inputs_changed = sorted(k.split(":", 1)[1] for k in tot["extra"] if k.startswith("input-object-changed:"))
    return {"probe_sets": len(by_set), "probe_sets_with_every_ordering_observed": full,
            "orderings_observed": sum(len(v) for v in by_set.values()),
            "preemptions_fired": tot["extra"].get("preemptions-fired", 0), "preemption_sites_by_file": files,
            "module_level_containers_changed_by_a_history (diagnostic)": mutated,
            "driver_forms_whose_input_object_was_modified_by_convert (diagnostic; the results of the re-conversions are what is checked)": inputs_changed,
            "counters": {k: v for k, v in tot["extra"].items() if not k.startswith(("perm:", "preempted-in-file:", "mutated-container:", "input-object-changed:"))}}

# as-built additions of the seventh wave (reported with the bound in the evidence)
BOUND = {k: v + "; seventh wave: " + 'the frozen corpus as driver forms: 6 (thorough 32) hash seeds, three 501-step histories (file order, reverse, every workbook object twice), regeneration of every accepted form' for k, v in BOUND.items()}
