"""C09 - choice lists survive intact and selects are wired to their own list; external data
sources are declared exactly once; itemsets.csv reproduces the external_choices sheet."""

import csv
import os
import io
import itertools
import re

from xmc import observe as O
from xmc.impl import run_convert
from xmc.pathmodel import norm_ws
from xmc.spaces import GenSpace

ID = "C09"
LEVEL = "model_checking"
TECHNIQUE = "explicit-state small-scope exploration: choice-list shapes x sparse extra-column patterns x select variants x placements, external-source combinations, and every sparse external_choices grid, executed on the implementation and compared with reference list/wiring/CSV models"
CLAIM = ("Every combination of up to three (prefix-colliding) choice lists, sparse extra-column fill pattern, select variant and "
         "placement, every small combination of external data sources, and every sparse external_choices grid up to 3x5 is converted by "
         "the real code; the secondary instances, itemset wiring, instance declarations and the itemsets CSV are compared with "
         "reference models written from the statement.")
RULE = (
    "lists cases = (sizes of lists c/c1/d, 16 sparse extra-column patterns, select variant, placement, label mode); external cases = "
    "subsets of external-source features; csv cases = every sparse fill pattern of a <=3 row external_choices grid x header given/guessed; "
    "non-trivial = accepted case whose lists/wiring/CSV were compared (plus expected rejections of instance-id clashes); distinct by case hash"
)
ASSUMPTIONS = [
    "list names, choice names and extra columns from a small alphabet chosen to collide by prefix (c / c1)",
    "external files are not read: only their declarations (id, URI) are checked",
]
BOUND = {
    "quick": "18 size vectors x 16 sparse patterns x 12 select variants x 3 placements x 2 label modes (rotated); external features subsets <=2; external_choices grids <=3 rows x 3 optional columns (all 584 patterns) x 2 header modes",
    "thorough": "same lists space with all label modes and placements unrotated; external feature subsets <=3; grids <=3 rows",
}
# as-built additions to the bound (kept next to BOUND so that the evidence reports them)
BOUND = {k: v + "; plus: " + "list names with a dot next to their stem; a user-written 'other' choice at every position with or_other; rows of different lists interleaved (round-robin / reversed); several pulldata() calls per cell" for k, v in BOUND.items()}

LISTS = ["c", "c1", "d"]
VARIANTS = ["plain", "filter", "rand", "randseed", "randseedref", "multi", "rank", "or_other", "shared", "search",
            "multi_or_other", "unused", "fromrepeat", "fromrepeat-filter", "randfalse", "randfalseseed", "randfilter", "multirandfalse", "randseedexpr", "randseedexpr2", "search_rand", "search_multi", "fromrepeat-sibling", "fromrepeat-inside", "search-after-token", "search-before-token", "search-nolabel", "search-nolabel-last", "search-nolabel-last-trq"]
REJECT_VARS = {"search_rand", "search_multi"}  # a search() list may not be shared with a select that is not using search()


def gen_lists(tier):
    n = 0
    for sizes in itertools.product([1, 2, 3], [0, 1, 2], [0, 2]):
        for pattern in range(16):
            for variant in VARIANTS:
                for pi, place in enumerate(("top", "group", "repeat")):
                    for li, lab in enumerate(("plain", "lang")):
                        n += 1
                        if tier == "quick" and (pattern + pi + li) % 2:
                            continue
                        yield {"k": "lists", "sizes": list(sizes), "pat": pattern, "var": variant, "place": place, "lab": lab}
    # rows of different lists interleaved on the sheet (c, c1, d, c, c1, ...): each list keeps all its rows, in its own order
    for sizes in ([2, 2, 0], [3, 2, 2], [2, 1, 2], [3, 1, 0]):
        for variant in VARIANTS:
            for place in ("top", "repeat"):
                for lab in ("plain", "lang"):
                    for il in ("rr", "rev"):
                        yield {"k": "lists", "sizes": sizes, "pat": 6, "var": variant, "place": place, "lab": lab, "il": il}
    # a list whose name contains a dot and has another list's name as its stem (c.1 next to c)
    for sizes in ([1, 2, 0], [3, 1, 2]):
        for variant in VARIANTS:
            for place in ("top", "group", "repeat"):
                for lab in ("plain", "lang"):
                    yield {"k": "lists", "sizes": sizes, "pat": 6, "var": variant, "place": place, "lab": lab, "l1": "c.1"}
    # a user-written choice named 'other' (first, middle, last) on a list used with or_other: nothing is appended
    for sz in (2, 3):
        for pos in range(sz):
            for variant in ("or_other", "multi_or_other"):
                for place in ("top", "repeat"):
                    for lab in ("plain", "lang"):
                        yield {"k": "lists", "sizes": [sz, 1, 0], "pat": 9, "var": variant, "place": place, "lab": lab, "userother": pos}
    # duplicate choice names, allowed by the setting
    for lab in ("plain", "lang"):
        yield {"k": "lists", "sizes": [3, 0, 0], "pat": 5, "var": "plain", "place": "top", "lab": lab, "dupnames": True}


# external data source features: tag -> (row, expected {instance id: src})
def ext_features():
    return {
        "file-csv": ({"type": "select_one_from_file f1.csv", "name": "s1", "label": "S1"}, {"f1": "jr://file-csv/f1.csv"}),
        "file-xml": ({"type": "select_one_from_file f2.xml", "name": "s2", "label": "S2"}, {"f2": "jr://file/f2.xml"}),
        "file-geojson": ({"type": "select_multiple_from_file f3.geojson", "name": "s3", "label": "S3"}, {"f3": "jr://file/f3.geojson"}),
        "file-csv-again": ({"type": "select_multiple_from_file f1.csv", "name": "s4", "label": "S4"}, {"f1": "jr://file-csv/f1.csv"}),
        "file-xml-clash": ({"type": "select_one_from_file f1.xml", "name": "s5", "label": "S5"}, {"f1": "jr://file/f1.xml"}),
        "file-geojson-rand": ({"type": "select_one_from_file f7.geojson", "name": "sg1", "label": "SG1", "parameters": "randomize=true seed=3"}, {"f7": "jr://file/f7.geojson"}),
        "file-geojson-label-only": ({"type": "select_multiple_from_file f8.geojson", "name": "sg2", "label": "SG2", "parameters": "label=nm"}, {"f8": "jr://file/f8.geojson"}),
        "file-geojson-value-only": ({"type": "select_one_from_file f9.geojson", "name": "sg3", "label": "SG3", "parameters": "value=code", "choice_filter": "a = ${last-saved#t0}"},
                                    {"f9": "jr://file/f9.geojson", "__last-saved": "jr://instance/last-saved"}),
        "file-csv-rand": ({"type": "select_one_from_file f10.csv", "name": "sg4", "label": "SG4", "parameters": "randomize=true"}, {"f10": "jr://file-csv/f10.csv"}),
        "file-params-case": ({"type": "select_one_from_file f4.csv", "name": "s6", "label": "S6", "parameters": "Value=Code Label=NameEN"}, {"f4": "jr://file-csv/f4.csv"}),
        "xml-external": ({"type": "xml-external", "name": "x1"}, {"x1": "jr://file/x1.xml"}),
        "csv-external": ({"type": "csv-external", "name": "x2"}, {"x2": "jr://file-csv/x2.csv"}),
        "csv-external-f1": ({"type": "csv-external", "name": "f1"}, {"f1": "jr://file-csv/f1.csv"}),
        "pulldata-calc": ({"type": "calculate", "name": "p1", "calculation": "pulldata('pd1', 'a', 'b', 'c')"}, {"pd1": "jr://file-csv/pd1.csv"}),
        "pulldata-rel": ({"type": "text", "name": "p2", "label": "P2", "relevant": "pulldata('pd1', 'a', 'b', 'c') = 1"}, {"pd1": "jr://file-csv/pd1.csv"}),
        "pulldata-constraint": ({"type": "text", "name": "p3", "label": "P3", "constraint": ". = pulldata('pd2', 'a', 'b', 'c')"}, {"pd2": "jr://file-csv/pd2.csv"}),
        "pulldata-f1": ({"type": "text", "name": "p4", "label": "P4", "required": "pulldata('f1', 'a', 'b', 'c') = 1"}, {"f1": "jr://file-csv/f1.csv"}),
        "pulldata-multi": ({"type": "calculate", "name": "p5", "calculation": "if(pulldata('pd1', 'a', 'b', 'c') > 0, pulldata('pd1', 'a', 'b', 'd') * pulldata('pd3', 'a', 'b', 'c'), 0)"},
                           {"pd1": "jr://file-csv/pd1.csv", "pd3": "jr://file-csv/pd3.csv"}),
        "pulldata-two-cells": ({"type": "integer", "name": "p6", "label": "P6", "calculation": "pulldata('pd1', 'a', 'b', 'c')",
                                "constraint": ". < pulldata('pd1', 'a', 'b', 'c') + pulldata('pd4', 'a', 'b', 'c')"},
                               {"pd1": "jr://file-csv/pd1.csv", "pd4": "jr://file-csv/pd4.csv"}),
        "last-saved": ({"type": "text", "name": "l1", "label": "L1", "default": "${last-saved#t0}"}, {"__last-saved": "jr://instance/last-saved"}),
        "last-saved-2": ({"type": "text", "name": "l2", "label": "L2", "calculation": "${last-saved#t0} + 1"}, {"__last-saved": "jr://instance/last-saved"}),
        "file-filter-last-saved": ({"type": "select_one_from_file f5.csv", "name": "s7", "label": "S7", "choice_filter": "a = ${last-saved#t0}"},
                                   {"f5": "jr://file-csv/f5.csv", "__last-saved": "jr://instance/last-saved"}),
        "file-xml-filter-last-saved": ({"type": "select_multiple_from_file f6.xml", "name": "s8", "label": "S8", "choice_filter": "a = ${last-saved#t0}"},
                                       {"f6": "jr://file/f6.xml", "__last-saved": "jr://instance/last-saved"}),
        "choices-filter-last-saved": ({"type": "select_one c", "name": "s9", "label": "S9", "choice_filter": "name != ${last-saved#t0}"}, {"c": None, "__last-saved": "jr://instance/last-saved"}),
        "group-relevant-last-saved": ({"type": "begin group", "name": "gl", "label": "GL", "relevant": "${last-saved#t0} != ''", "_close": "group"}, {"__last-saved": "jr://instance/last-saved"}),
        "choices-c": ({"type": "select_one c", "name": "sc", "label": "SC"}, {"c": None}),
        "choices-f1": ({"type": "select_one f1", "name": "sf", "label": "SF"}, {"f1": None}),
    }


def gen_external(tier):
    feats = list(ext_features())
    k = 2 if tier == "quick" else 3
    for r in range(1, k + 1):
        for sub in itertools.combinations(feats, r):
            for place in ("top", "repeat"):
                yield {"k": "ext", "feats": list(sub), "place": place}


def gen_csv(tier):
    opt = ["label", "state", "zz"]
    pats = list(itertools.product((0, 1), repeat=3))
    for nrows in (1, 2, 3):
        for fill in itertools.product(pats, repeat=nrows):
            for hdr in (True, False):
                yield {"k": "csv", "fill": [list(f) for f in fill], "hdr": hdr}
                if nrows == 1:
                    # wherever the external select sits, the itemsets CSV is produced
                    for place in ("group", "repeat", "loop", "nested"):
                        yield {"k": "csv", "fill": [list(f) for f in fill], "hdr": hdr, "place": place}
                if nrows <= 2 and any(any(f) for f in fill):
                    for vals in (1, 2):
                        yield {"k": "csv", "fill": [list(f) for f in fill], "hdr": hdr, "vals": vals}


SPACE = GenSpace({"lists": gen_lists, "ext": gen_external, "csv": gen_csv}, chunk=300)
blocks = SPACE.blocks
expand = SPACE.expand


def required_outcomes(tier):
    return {"ok", "reject-expected"}


# ---------------------------------------------------------------- lists --------------
def lists_of(case):
    return [LISTS[0], case.get("l1", LISTS[1]), LISTS[2]]


def build_lists(case):
    choices = []
    for ln, sz in zip(lists_of(case), case["sizes"]):
        for i in range(sz):
            ch = {"list_name": ln, "name": f"{ln}_{i}".replace(".", "_")}
            if ln == "c" and case.get("userother") == i:
                ch["name"] = "other"
            if case.get("dupnames") and i == 2:
                ch["name"] = f"{ln}_0"
            if case["lab"] == "plain":
                ch["label"] = f"L {ln} {i}"
            else:
                ch["label::en"] = f"E {ln} {i}"
                ch["label::fr"] = f"F {ln} {i}"
            if ln == "c" and i < 2:
                if case["pat"] >> (2 * i) & 1:
                    ch["x"] = f"x{i}"
                if case["pat"] >> (2 * i + 1) & 1:
                    ch["y"] = f"y{i}"
            choices.append(ch)
    if case.get("il"):
        by = {}
        for c in choices:
            by.setdefault(c["list_name"], []).append(c)
        groups = list(by.values()) if case["il"] == "rr" else list(by.values())[::-1]
        choices = [g[i] for i in range(max(len(g) for g in groups)) for g in groups if i < len(g)]
    v = case["var"]
    sel = {"type": "select_one c", "name": "s", "label": "S"}
    qs = [{"type": "integer", "name": "n", "label": "N"}, sel]
    if v == "filter":
        sel["choice_filter"] = "x = ${n}"
    elif v == "rand":
        sel["parameters"] = "randomize=true"
    elif v == "randseed":
        sel["parameters"] = "randomize=true seed=42"
    elif v == "randseedref":
        sel["parameters"] = "randomize=true, seed=${n}"
    elif v == "randseedexpr":
        sel["parameters"] = "randomize=true seed=${n}+${n}"
    elif v == "randseedexpr2":
        sel["parameters"] = "seed=${n}*7 randomize=true"
    elif v == "randfalse":
        sel["parameters"] = "randomize=false"
    elif v == "randfalseseed":
        sel["parameters"] = "randomize=false seed=5"
    elif v == "multirandfalse":
        sel.update(type="select_multiple c", parameters="randomize=false", choice_filter="x = ${n}")
    elif v == "randfilter":
        sel.update(parameters="seed=7 randomize=true", choice_filter="x = ${n}")
    elif v == "multi":
        sel["type"] = "select_multiple c"
    elif v == "rank":
        sel["type"] = "rank c"
    elif v == "or_other":
        sel["type"] = "select_one c or_other"
    elif v == "multi_or_other":
        sel["type"] = "select_multiple c or_other"
        qs.append({"type": "select_one c", "name": "s2", "label": "S2"})
    elif v == "shared":
        qs.append({"type": "select_multiple c", "name": "s2", "label": "S2", "choice_filter": "y != ''"})
    elif v == "search":
        sel["appearance"] = "search('f')"
    elif v == "search-nolabel":
        # a search() select on a list one of whose choices has no label (a warning only): in-line items, that one with an empty label
        sel["appearance"] = "search('f')"
        for c_ in choices:
            if c_["list_name"] == "c" and c_["name"].endswith("_0") and case["lab"] == "plain":
                c_.pop("label", None)
    elif v in ("search-nolabel-last", "search-nolabel-last-trq"):
        # the label-less choice comes after labelled ones; -trq: the questions of the form are translated, the list is not
        sel["appearance"] = "search('f')"
        mine = [c_ for c_ in choices if c_["list_name"] == "c"]
        if case["lab"] == "plain" and len(mine) > 1:
            mine[-1].pop("label", None)
        if v.endswith("trq"):
            sel.pop("label")
            sel.update({"label::en": "S en", "label::fr": "S fr"})
    elif v == "search-after-token":
        sel["appearance"] = "minimal search('f')"
    elif v == "search-before-token":
        sel["appearance"] = "search('f', 'matches', 'k', 'v') quick"
    elif v in ("search_rand", "search_multi"):
        sel["appearance"] = "search('f')"
        qs.append({"type": "select_one c", "name": "s2", "label": "S2", "parameters": "randomize=true"} if v == "search_rand" else {"type": "select_multiple c", "name": "s2", "label": "S2"})
    elif v == "unused":
        qs = [qs[0]]
    elif v == "fromrepeat-sibling":
        # the filter also refers to a question of a group whose name extends the repeat's name (rp_info next to rp)
        sel["type"] = "select_one ${rq}"
        sel["choice_filter"] = "${rq} != ${skip} and ${rq} != ${rp_x}"
        qs = [{"type": "begin repeat", "name": "rp", "label": "RP"}, {"type": "text", "name": "rq", "label": "RQ"}, {"type": "end repeat"},
              {"type": "begin group", "name": "rp_info", "label": "RI"}, {"type": "text", "name": "skip", "label": "SK"}, {"type": "end group"},
              {"type": "text", "name": "rp_x", "label": "RX"}, *qs]
    elif v == "fromrepeat-inside":
        # the select stands inside the repeat whose answers it lists, and its own logic cells mention the same question
        sel["type"] = "select_one ${rq}"
        sel["relevant"] = "${rq} != ''"
        sel["constraint"] = ". != ${rq}"
        qs = [qs[0], {"type": "begin repeat", "name": "rp", "label": "RP"}, {"type": "text", "name": "rq", "label": "RQ"}, sel, {"type": "end repeat"}]
    elif v in ("fromrepeat", "fromrepeat-filter"):
        # the select's items are the answers given to a question of a repeat
        sel["type"] = "select_one ${rq}"
        if v.endswith("filter"):
            sel["choice_filter"] = "${rq} != 'a'"
        qs = [{"type": "begin repeat", "name": "rp", "label": "RP"}, {"type": "text", "name": "rq", "label": "RQ"}, {"type": "end repeat"}, *qs]
    if case["sizes"][1]:
        qs.append({"type": f"select_one {lists_of(case)[1]}", "name": "t", "label": "T"})
    place = case["place"]
    if place == "top":
        rows = qs
    else:
        kind = "group" if place == "group" else "repeat"
        rows = [{"type": f"begin {kind}", "name": "w", "label": "W"}, *qs, {"type": f"end {kind}"}]
    wb = {"survey": rows, "choices": choices}
    if case.get("dupnames"):
        wb["settings"] = [{"allow_choice_duplicates": "yes"}]
    return wb


def check_lists(case, wb, out, viol):
    obs = O.Obs(out.xform)
    v = case["var"]
    choices = wb["choices"]
    lang = case["lab"] == "lang"
    sec = obs.secondary_instances()
    ids = [i for i, _, _ in sec]
    if len(ids) != len(set(ids)):
        viol.append(("duplicate-instance-id", str(ids)))
    insts = {i: el for i, _, el in sec}
    other_lists = set()
    if v in ("or_other", "multi_or_other"):
        other_lists.add("c")
    searched = {"c"} if v.startswith("search-") or v == "search" else set()
    itx = {}
    for lg, d, texts in obs.itext:
        for tid, vals in texts:
            itx.setdefault(tid, {})[lg] = {form: el for form, el in vals}
    for ln in lists_of(case):
        exp = [c for c in choices if c["list_name"] == ln]
        if not exp:
            if ln in insts:
                viol.append((f"instance-for-absent-list", ln))
            continue
        if ln in searched:
            if ln in insts:
                viol.append(("search-list-has-instance", ln))
            continue
        if ln not in insts:
            viol.append((f"list-instance-missing:{v}", ln))
            continue
        root = insts[ln].find(O.X + "root")
        items = root.findall(O.X + "item") if root is not None else []
        got = [[(O.local(c.tag), c.text) for c in it] for it in items]
        want = []
        for idx, c in enumerate(exp):
            it = []
            if lang:
                it.append(("itextId", f"{ln}-{idx}"))
            it.append(("name", c["name"]))
            if not lang:
                it.append(("label", c["label"]))
            for k in ("x", "y"):
                if k in c:
                    it.append((k, c[k]))
            want.append(it)
        if ln in other_lists and case.get("userother") is None:
            idx = len(exp)
            want.append(([("itextId", f"{ln}-{idx}")] if lang else []) + [("name", "other")] + ([] if lang else [("label", "Other")]))
        if got != want:
            kind = "truncated" if len(got) < len(want) else "extended" if len(got) > len(want) else "content"
            viol.append((f"list-items-{kind}:{v}:{case['lab']}", f"list {ln}: got {got} want {want}"))
        if lang:
            for idx, c in enumerate(exp):
                for lg, key in (("en", "label::en"), ("fr", "label::fr")):
                    el = itx.get(f"{ln}-{idx}", {}).get(lg, {}).get(None)
                    if el is None or (el.text or "") != c[key]:
                        viol.append((f"choice-itext:{v}", f"{ln}-{idx} {lg}: {None if el is None else el.text!r} want {c[key]!r}"))
    for el, tag, ref, anc in obs.body_controls():
        if tag in ("select", "select1", "rank"):
            for it in el.findall(O.X + "itemset"):
                for iid in re.findall(r"instance\('([^']*)'\)", it.get("nodeset") or ""):
                    if iid not in insts:
                        viol.append((f"itemset-on-undeclared-instance:{v}", f"{ref}: {it.get('nodeset')}"))
    if v == "unused":
        return
    base = "/data" if case["place"] == "top" else "/data/w"
    ctrls = {ref: el for el, tag, ref, anc in obs.body_controls() if tag in ("select", "select1", "rank", "input")}
    s_el = ctrls.get(f"{base}/rp/s" if v == "fromrepeat-inside" else f"{base}/s")
    if s_el is None:
        viol.append(("select-control-missing", ""))
        return
    want_tag = {"multi": "select", "multi_or_other": "select", "rank": "rank", "multirandfalse": "select"}.get(v, "select1")
    if O.local(s_el.tag) != want_tag:
        viol.append((f"select-tag:{v}", O.local(s_el.tag)))
    nref = f"{base}/n" if case["place"] != "repeat" else "../n"
    cur = "" if case["place"] != "repeat" else "current()/"
    expns = {
        "plain": "instance('c')/root/item", "filter": f"instance('c')/root/item[x = {cur}{nref}]",
        "rand": "randomize(instance('c')/root/item)", "randseed": "randomize(instance('c')/root/item, 42)",
        "randseedref": f"randomize(instance('c')/root/item, {nref})", "multi": "instance('c')/root/item",
        "rank": "instance('c')/root/item", "or_other": "instance('c')/root/item", "shared": "instance('c')/root/item",
        "multi_or_other": "instance('c')/root/item",
        "randseedexpr": f"randomize(instance('c')/root/item, {nref} + {nref})", "randseedexpr2": f"randomize(instance('c')/root/item, {nref} *7)",
        "randfalse": "instance('c')/root/item", "randfalseseed": "instance('c')/root/item",
        "multirandfalse": f"instance('c')/root/item[x = {cur}{nref}]", "randfilter": f"randomize(instance('c')/root/item[x = {cur}{nref}], 7)",
    }

    def check_itemset(el, list_name, expn, who):
        its = el.findall(O.X + "itemset")
        if len(its) != 1:
            viol.append((f"itemset-count:{who}:{v}", str(len(its))))
            return
        ns_ = norm_ws(its[0].get("nodeset") or "").replace("[ ", "[").replace(" ]", "]").replace("( ", "(").replace(" )", ")")
        if ns_ != norm_ws(expn):
            viol.append((f"itemset-nodeset:{who}:{v}", f"got {its[0].get('nodeset')!r} want {expn!r}"))
        val = its[0].find(O.X + "value")
        lab = its[0].find(O.X + "label")
        wl = "jr:itext(itextId)" if lang else "label"
        if val is None or val.get("ref") != "name" or lab is None or lab.get("ref") != wl:
            viol.append((f"itemset-value-label-ref:{who}:{v}", f"{None if val is None else val.get('ref')} / {None if lab is None else lab.get('ref')}"))

    if v.startswith("fromrepeat"):
        its = s_el.findall(O.X + "itemset")
        pred = "./rq != ''" if v == "fromrepeat" else "./rq != 'a'"
        if v == "fromrepeat-sibling":
            pred = f"./rq != {base}/rp_info/skip and ./rq != {base}/rp_x"
        ok = len(its) == 1 and norm_ws(its[0].get("nodeset") or "").replace("[ ", "[").replace(" ]", "]") == f"{base}/rp[{pred}]"
        if v == "fromrepeat-sibling" and len(its) == 1:
            # the two outside operands may be written relative to the select: they must resolve to their own nodes
            from xmc.pathmodel import Path

            m = re.match(r"^(\S+)\[ ?\./rq != (\S+) and \./rq != (\S+) ?\]$", norm_ws(its[0].get("nodeset") or ""))
            ctx = [*base.strip("/").split("/"), "s"]
            ok = bool(m) and m.group(1) == f"{base}/rp" and all(
                Path(raw).ok and Path(raw).resolve(ctx) == [*base.strip("/").split("/"), *tail]
                for raw, tail in ((m.group(2), ["rp_info", "skip"]), (m.group(3), ["rp_x"])))
        if v == "fromrepeat-inside" and case["place"] == "repeat":
            ok = len(its) == 1  # (both repeats inside a third one: which instances are meant is not fixed by the documentation; not judged)
        elif v == "fromrepeat-inside" and len(its) == 1:
            # the items are all instances of the repeat (a path ending in the step 'rp' that reaches the repeat's node), not the current one ('..')
            from xmc.pathmodel import Path

            m = re.match(r"^(\S+)\[ ?\./rq != '' ?\]$", norm_ws(its[0].get("nodeset") or ""))
            bl = base.strip("/").split("/")
            ok = bool(m) and m.group(1).rsplit("/", 1)[-1] == "rp" and Path(m.group(1)).ok and Path(m.group(1)).resolve([*bl, "rp", "s"]) == [*bl, "rp"]
        if ok:
            val, lab = its[0].find(O.X + "value"), its[0].find(O.X + "label")
            ok = val is not None and lab is not None and val.get("ref") == "rq" and lab.get("ref") == "rq"
        if not ok:
            viol.append((f"itemset-from-repeat:{v}", f"{[dict(i.attrib) for i in its]}"))
    elif v in ("search", "search-after-token", "search-before-token", "search-nolabel", "search-nolabel-last", "search-nolabel-last-trq"):
        items = s_el.findall(O.X + "item")
        exp = [c for c in choices if c["list_name"] == "c"]
        got = [(it.find(O.X + "value").text) for it in items]
        if got != [c["name"] for c in exp] or s_el.findall(O.X + "itemset"):
            viol.append(("search-inline-items", f"{got}"))
        for it, c in zip(items, exp):
            lab = it.find(O.X + "label")
            if lang:
                tid = O.itext_id(lab.get("ref"))
                txt = {lg: (itx.get(tid, {}).get(lg, {}).get(None).text if itx.get(tid, {}).get(lg, {}).get(None) is not None else None) for lg in ("en", "fr")}
                if txt != {"en": c["label::en"], "fr": c["label::fr"]}:
                    viol.append(("search-inline-label-itext", f"{txt}"))
            elif lab is None or lab.get("ref") is not None or (lab.text or "") != c.get("label", ""):
                viol.append(("search-inline-label", f"choice {c['name']}: {None if lab is None else (lab.get('ref') or lab.text)!r} want {c.get('label', '')!r}"))
    else:
        check_itemset(s_el, "c", expns[v], "s")
    if v in ("shared", "multi_or_other"):
        s2 = ctrls.get(f"{base}/s2")
        if s2 is None:
            viol.append(("second-select-missing", ""))
        else:
            check_itemset(s2, "c", "instance('c')/root/item[y != '']" if v == "shared" else "instance('c')/root/item", "s2")
    if case["sizes"][1]:
        t_el = ctrls.get(f"{base}/t")
        if t_el is None:
            viol.append(("c1-select-missing", ""))
        else:
            l1 = lists_of(case)[1]
            check_itemset(t_el, l1, f"instance('{l1}')/root/item", "t")
    if v in ("or_other", "multi_or_other"):
        oth = ctrls.get(f"{base}/s_other")
        b = obs.bind_map().get(f"{base}/s_other", [None])[0]
        if oth is None or O.local(oth.tag) != "input" or b is None or norm_ws(b.get("relevant") or "") != "selected(../s, 'other')":
            viol.append(("or-other-companion", f"{None if b is None else dict(b.attrib)}"))
        elif obs.resolves(f"{base}/s_other") is False:
            viol.append(("or-other-node-missing", ""))


# ---------------------------------------------------------------- external -----------
def build_ext(case):
    F = ext_features()
    rows = [{"type": "text", "name": "t0", "label": "T0"}]
    body = []
    for f in case["feats"]:
        r = dict(F[f][0])
        if r.pop("_close", None):
            body += [r, {"type": "text", "name": r["name"] + "q", "label": "GQ"}, {"type": "end group"}]
        else:
            body.append(r)
    if case["place"] == "repeat":
        inner = [r for r in body if r["type"] not in ("xml-external", "csv-external")]
        outer = [r for r in body if r["type"] in ("xml-external", "csv-external")]
        rows += outer
        if inner:
            rows += [{"type": "begin repeat", "name": "w", "label": "W"}, *inner, {"type": "end repeat"}]
    else:
        rows += body
    choices = [{"list_name": "c", "name": "a", "label": "A"}]
    if "choices-f1" in case["feats"]:
        choices.append({"list_name": "f1", "name": "a", "label": "A"})
    return {"survey": rows, "choices": choices}


def expect_ext(case):
    """-> (declared {id: src}, reject?)"""
    F = ext_features()
    decl = {}
    clash = False
    for f in case["feats"]:
        for iid, src in F[f][1].items():
            if src is None:
                continue
            if iid in decl and decl[iid] != src:
                clash = True
            decl.setdefault(iid, src)
    # choice lists get an instance too; the same id as an external source is a clash
    for ln in ("c", "f1"):
        if ln == "f1" and "choices-f1" not in case["feats"]:
            continue
        if ln in decl:
            clash = True
        decl.setdefault(ln, None)
    return decl, clash


def check_ext(case, wb, out, viol):
    obs = O.Obs(out.xform)
    decl, _ = expect_ext(case)
    got = {}
    for iid, src, el in obs.secondary_instances():
        if iid in got:
            viol.append(("external-instance-declared-twice", f"{iid}"))
        got[iid] = src
    # selects from file read their own file with the value / label refs their parameters name
    # (defaults: name / label, for geojson id / title)
    for f in case["feats"]:
        row = ext_features()[f][0]
        ty = row["type"].split()
        if not ty[0].endswith("_from_file"):
            continue
        stem, ext = os.path.splitext(ty[1])
        pm = dict(kv.split("=", 1) for kv in row.get("parameters", "").split() if "=" in kv)
        pm = {k.lower(): v for k, v in pm.items()}
        want_v = pm.get("value", "id" if ext == ".geojson" else "name")
        want_l = pm.get("label", "title" if ext == ".geojson" else "label")
        el = next((e for e, tag, ref, anc in obs.body_controls() if ref and ref.endswith("/" + row["name"]) and tag in ("select", "select1")), None)
        its = el.findall(O.X + "itemset") if el is not None else []
        flt = "[a = instance('__last-saved')/data/t0]" if "last-saved" in row.get("choice_filter", "") else ""
        want_ns = f"instance('{stem}')/root/item{flt}"
        if pm.get("randomize") == "true":
            want_ns = f"randomize({want_ns}" + (f", {pm['seed']}" if "seed" in pm else "") + ")"
        ok = len(its) == 1 and norm_ws(its[0].get("nodeset") or "").replace("[ ", "[").replace(" ]", "]") == want_ns
        if ok:
            v, lb = its[0].find(O.X + "value"), its[0].find(O.X + "label")
            ok = v is not None and lb is not None and v.get("ref") == want_v and lb.get("ref") == want_l
        if not ok:
            viol.append((f"from-file-itemset:{f}", f"want instance('{stem}') value={want_v} label={want_l}; got {[(i.get('nodeset'), [c.get('ref') for c in i]) for i in its]}"))
    if got != decl:
        missing = sorted(set(decl) - set(got))
        extra = sorted(set(got) - set(decl))
        wrong = sorted(k for k in set(got) & set(decl) if got[k] != decl[k])
        kind = "missing" if missing else "extra" if extra else "uri"
        viol.append((f"external-instances-{kind}:{'+'.join(case['feats'])[:60]}", f"got {got} want {decl}"))


# ---------------------------------------------------------------- csv ----------------
def build_csv(case):
    ext = []
    for i, fill in enumerate(case["fill"]):
        row = {"list_name": "e", "name": f"n{i}"}
        for bit, col in zip(fill, ("label", "state", "zz")):
            if bit:
                # values: plain, with inner double spaces, with quotes / commas / non-ASCII (the CSV must reproduce the cell)
                row[col] = [f"{col}{i}", f"{col}  two  spaces {i}", f'{col},"q" \u00e9{i}'][case.get("vals", 0)]
        ext.append(row)
    sel = {"type": "select_one_external e", "name": "s", "label": "S", "choice_filter": "state=${st}"}
    place = case.get("place", "top")
    body = {"top": [sel], "group": [{"type": "begin group", "name": "w", "label": "W"}, sel, {"type": "end group"}],
            "repeat": [{"type": "begin repeat", "name": "w", "label": "W"}, sel, {"type": "end repeat"}],
            "loop": [{"type": "begin loop over lc", "name": "w", "label": "W"}, sel, {"type": "end loop"}],
            "nested": [{"type": "begin repeat", "name": "w", "label": "W"}, {"type": "begin group", "name": "w2", "label": "W2"}, sel, {"type": "end group"}, {"type": "end repeat"}]}[place]
    wb = {"survey": [{"type": "text", "name": "st", "label": "ST"}, *body],
          "external_choices": ext}
    if place == "loop":
        wb["choices"] = [{"list_name": "lc", "name": "k1", "label": "K1"}, {"list_name": "lc", "name": "k2", "label": "K2"}]
    if case["hdr"]:
        wb["external_choices_header"] = [{"list_name": None, "name": None, "label": None, "state": None, "zz": None}]
    return wb


def check_csv(case, wb, out, viol):
    if out.itemsets is None:
        viol.append(("itemsets-missing", ""))
        return
    rows = list(csv.reader(io.StringIO(out.itemsets, newline="")))
    if not rows:
        viol.append(("itemsets-empty", ""))
        return
    header = rows[0]
    sheet = wb["external_choices"]
    if case["hdr"]:
        want_header = ["list_name", "name", "label", "state", "zz"]
        if header != want_header:
            viol.append(("itemsets-header", f"{header}"))
            return
    else:
        used = {k for r in sheet for k in r}
        if set(header) != used or len(header) != len(set(header)):
            viol.append(("itemsets-header-guessed", f"{header} vs {sorted(used)}"))
            return
    if len(rows) - 1 != len(sheet):
        viol.append(("itemsets-row-count", f"{len(rows) - 1} vs {len(sheet)}"))
        return
    for i, (r, src) in enumerate(zip(rows[1:], sheet)):
        for j, h in enumerate(header):
            got = r[j] if j < len(r) else ""
            if got != src.get(h, ""):
                viol.append(("itemsets-cell-under-wrong-header", f"row {i} column {h!r}: got {got!r} want {src.get(h, '')!r} (csv row {r})"))
                return
        if any(x for x in r[len(header):]):
            viol.append(("itemsets-extra-cells", str(r)))
    # the select is an input with a query on its own list and filter
    obs = O.Obs(out.xform)
    sref = {"top": "/data/s", "group": "/data/w/s", "repeat": "/data/w/s", "loop": "/data/w/k1/s", "nested": "/data/w/w2/s"}[case.get("place", "top")]
    el = next((e for e, tag, ref, anc in obs.body_controls() if ref == sref), None)
    if el is None or O.local(el.tag) != "input" or norm_ws(el.get("query") or "").replace("[ ", "[").replace(" ]", "]") != "instance('e')/root/item[state= /data/st]".replace("= /", "= /"):
        q = None if el is None else el.get("query")
        if q is None or norm_ws(q).replace(" ", "") != "instance('e')/root/item[state=/data/st]":
            viol.append(("external-select-query", str(q)))


def check_one(case):
    k = case["k"]
    wb = {"lists": build_lists, "ext": build_ext, "csv": build_csv}[k](case)
    out = run_convert(wb)
    ntr = len(wb["survey"]) + len(wb.get("choices", ())) + len(wb.get("external_choices", ()))
    if out.kind == "crash":
        return {"outcome": "crash", "nt": False, "viol": [], "tr": ntr}
    er = (k == "ext" and expect_ext(case)[1]) or (k == "lists" and case["var"] in REJECT_VARS)
    if out.kind == "reject":
        if er:
            return {"outcome": "reject-expected", "nt": True, "viol": [], "tr": ntr}
        return {"outcome": "reject", "nt": False, "viol": [], "tr": ntr, "unexp": True, "why": out.msg[:200]}
    viol = []
    if er:
        viol.append(("instance-id-clash-accepted", str(case["feats"])) if k == "ext" else (f"search-list-shared-accepted:{case['var']}", ""))
    else:
        {"lists": check_lists, "ext": check_ext, "csv": check_csv}[k](case, wb, out, viol)
    return {"outcome": "ok", "nt": not viol, "viol": viol, "tr": ntr}

# as-built additions of the seventh wave (reported with the bound in the evidence)
BOUND = {k: v + "; seventh wave: " + 'a from-repeat select inside the repeat it lists with logic cells naming the same question; search() on a list whose last choice has no label, also with translated questions' for k, v in BOUND.items()}
