"""C12 - container format and delivery channel do not matter (exhaustive differential relation
against the dict rendering of the same abstract workbook)."""

import io
import os
import pathlib
import tempfile

from xmc import render
from xmc.impl import run_convert
from xmc.ref import catalogue as cat
from xmc.spaces import GenSpace, forests_upto, rows_from_forest

ID = "C12"
LEVEL = "model_checking"
TECHNIQUE = "exhaustive differential exploration: every base workbook of a feature catalogue rendered to every container x delivery channel x file_type mode x cell typing x whitespace/shape noise (bounded, all positions), each executed on the implementation and compared with the dict rendering"
CLAIM = ("For every base workbook (one per feature family plus all layouts of L(3,3)) every rendering - md, csv, xls (own BIFF8 "
         "writer), xlsx, xlsm; as path (str/PathLike), bytes, BytesIO, open binary file, text; implicit/explicit file_type; every typing of "
         "numeric-looking cells; edge-space/NBSP noise; trailing and interior empty rows/columns of the stated lengths at every position; "
         "sheet-name case - is converted by the real code and must give the same XForm, warnings and itemsets as the dict rendering.")
RULE = (
    "case = (base workbook, container, channel, file_type mode) | (typed-cell assignment) | (noise kind, sheet, position, length); "
    "non-trivial = both sides accepted and compared on xform, warnings and itemsets; distinct by canonical case hash"
)
ASSUMPTIONS = [
    ".xls inputs come from the harness's own minimal BIFF8 writer (label/number/bool cells), read by xlrd as pyxform does",
    "interior blank rows cannot be expressed in md/csv; that dimension is xls/xlsx only; runs longer than 60 rows / 20 columns are outside the statement",
]
BOUND = {
    "quick": "catalogue x 2 decorations + L(4,3) x 6 container writers x applicable channels x implicit/explicit file_type; 7 typed cells x 3 typings one-at-a-time and all-at-once x {xls,xlsx}; 4 text-noise kinds x 3 cells x 4 containers; empty-row runs {1,59,60} and empty-column runs {1,19,20} at 3 positions x 2 sheets, trailing {1,3} x {xls,xlsx}; boundary runs {61 rows, 21 columns} as negative control",
    "thorough": "catalogue x 2 decorations + L(5,3); same other dimensions",
}
# as-built additions to the bound (kept next to BOUND so that the evidence reports them)
BOUND = {k: v + "; plus: " + 'BytesIO streams positioned at their end or used before; header-less columns in md / csv; numeric header cells; small decimals as typed cells; several separate blank row / column runs each within the limit (2-3 runs, together beyond it); paths with upper-case / unknown / missing suffix; workbooks with extra sheets (misspelled, underscore-prefixed, unrelated, two at once) in every container' for k, v in BOUND.items()}

_TMP = None


def tmpdir():
    global _TMP
    if _TMP is None or not os.path.isdir(_TMP):
        import atexit
        import shutil

        _TMP = tempfile.mkdtemp(prefix="c12-", dir="/dev/shm" if os.path.isdir("/dev/shm") else None)
        atexit.register(shutil.rmtree, _TMP, True)
    return _TMP


# ---------------------------------------------------------------- base forms ----------
def _dec_lang(r):
    if "label" in r:
        lab = r.pop("label")
        r["label::en"] = lab
        r["label::fr"] = lab + "f"


def base_forms(tier):
    labels = list(cat.TYPE_ROWS)
    out = []
    for lb in labels:
        out.append((f"cat:{lb}", cat.form_for(lb, "group")))
        out.append((f"cat-lang:{lb}", cat.form_for(lb, "repeat", _dec_lang)))
    out.append(("settings", {"survey": [{"type": "text", "name": "q", "label": "Q é \U0001F600"}],
                             "settings": [{"form_title": "T", "form_id": "fid", "version": "7", "style": "pages"}]}))
    out.append(("entities", {"survey": [{"type": "text", "name": "q", "label": "Q", "save_to": "p"}],
                             "entities": [{"list_name": "trees", "label": "${q}"}]}))
    # extra sheets: a name close to a missing optional sheet (warning), an underscore-prefixed one, an unrelated one
    for extra in ("setings", "entitie", "_settings", "notes", "Setting"):
        out.append((f"extra-sheet:{extra}", {"survey": [{"type": "text", "name": "q", "label": "Q"}], extra: [{"form_title": "T", "x": "1"}]}))
    out.append(("extra-sheet:two", {"survey": [{"type": "text", "name": "q", "label": "Q"}], "choices": [{"list_name": "c", "name": "x", "label": "X"}],
                                    "setings": [{"a": "1"}], "entites": [{"a": "1"}]}))
    # cells holding line breaks, tabs, quotes and separators (quoted CSV fields, inline strings in xlsx, BIFF labels)
    out.append(("multiline", {"survey": [{"type": "text", "name": "q", "label": "Line1\nLine2", "hint": "tab\there, comma; \"quoted\""},
                                         {"type": "select_one c", "name": "s", "label": "S\n\nafter blank line", "constraint": "regex(., 'a|b|c|d|e|f') and . != 'a'", "constraint_message": "m1\nm2"}],
                              "choices": [{"list_name": "c", "name": "x", "label": "Yes\n(start now)"}, {"list_name": "c", "name": "y", "label": "a|b \\ c"}],
                              "settings": [{"form_title": "T,1 \"x\"", "form_id": "ml"}]}))
    # cells that begin with, hold or end with '#' (the markdown reader knows trailing comments)
    out.append(("hashes", {"survey": [{"type": "integer", "name": "q", "label": "# of children under 18", "hint": "#", "constraint": ". >= 0", "constraint_message": "#1 rule: no negatives #"},
                                      {"type": "select_one c", "name": "s", "label": "Pick #", "hint": "a # b"}],
                           "choices": [{"list_name": "c", "name": "x", "label": "#1"}, {"list_name": "c", "name": "y", "label": "No. #2 #"}],
                           "settings": [{"form_title": "# Title", "form_id": "hashes"}]}))
    # broken workbooks: the refusal (error type, text, cited row) must be the same through every container
    q = {"type": "text", "name": "q", "label": "Q"}
    ch = [{"list_name": "c", "name": "x", "label": "X"}, {"list_name": "c", "name": "y", "label": "Y"}]
    broken = {
        "unknown-ref": {"survey": [q, {"type": "text", "name": "r", "label": "R ${zz}"}]},
        "missing-list": {"survey": [q, {"type": "select_one zz", "name": "s", "label": "S"}], "choices": ch},
        "unmatched-end": {"survey": [q, {"type": "end group"}]},
        "unmatched-begin": {"survey": [{"type": "begin repeat", "name": "r", "label": "R"}, q]},
        "invalid-name": {"survey": [q, {"type": "text", "name": "1a", "label": "A"}]},
        "dup-names": {"survey": [q, dict(q)]},
        "dup-choices": {"survey": [{"type": "select_one c", "name": "s", "label": "S"}], "choices": [ch[0], dict(ch[0])]},
        "nameless-choice": {"survey": [{"type": "select_one c", "name": "s", "label": "S"}], "choices": [ch[0], {"list_name": "c", "label": "Y"}]},
        "bad-param": {"survey": [{"type": "text", "name": "t", "label": "T", "parameters": "rows=abc"}]},
        "calc-without": {"survey": [q, {"type": "calculate", "name": "k"}]},
        "unknown-type": {"survey": [q, {"type": "foo", "name": "f", "label": "F"}]},
        "no-survey": {"choices": ch},
    }
    for name, wb in broken.items():
        out.append((f"broken:{name}", wb))
    N = 4 if tier == "quick" else 5
    for i, forest in enumerate(forests_upto(N, 3)):
        out.append((f"layout:{i}", {"survey": rows_from_forest(forest, ["a", "b", "c", "d", "e", "f", "g"])}))
    return out


KNOWN_SHEETS = {"survey", "choices", "settings", "external_choices", "entities", "osm"}


def with_headers(wb):
    """the dict delivery of a workbook: data + header row of every supported sheet, and the names of all sheets"""
    out = {}
    names = render.sheet_names(wb)
    for s in names:
        if s.lower() in KNOWN_SHEETS:
            out[s] = [dict(r) for r in wb[s]]
            out[s + "_header"] = [{h: None for h in render.headers_of(wb, s)}]
    if any(s.lower() not in KNOWN_SHEETS for s in names):
        out["sheet_names"] = list(names)
    return out


FMTS = ["md", "csv", "xls", "xlsx", "xlsm", "xlsx-openpyxl"]
CHANNELS = {"md": ["str", "bytes", "bytes-bom", "BytesIO", "BytesIO-at-end", "BytesIO-twice", "file", "path_str", "path_like"],
            "csv": ["str", "bytes", "bytes-bom", "bytes-blank-lines", "BytesIO", "BytesIO-at-end", "BytesIO-twice", "file", "path_str", "path_like"],
            "xls": ["bytes", "BytesIO", "BytesIO-at-end", "BytesIO-twice", "file", "path_str", "path_like"],
            "xlsx": ["bytes", "BytesIO", "BytesIO-at-end", "BytesIO-twice", "file", "path_str", "path_like"],
            "xlsm": ["bytes", "path_str"], "xlsx-openpyxl": ["bytes"]}


def gen_containers(tier):
    for bi, (name, wb) in enumerate(base_forms(tier)):
        for fmt in FMTS:
            for ch in CHANNELS[fmt]:
                for explicit in (False, True):
                    if explicit and ch in ("path_like",):
                        continue
                    yield {"k": "container", "base": name, "wb": wb, "fmt": fmt, "ch": ch, "explicit": explicit}


def gen_paths(tier):
    """a path whose suffix is not one of the lower-case supported ones still supplies the form id from its stem"""
    forms = base_forms(tier)[: (4 if tier == "quick" else 12)]
    for name, wb in forms:
        for fmt in ("md", "csv", "xls", "xlsx"):
            for suffix in (f".{fmt.upper()}", ".txt", "", ".data"):
                for ch in ("path_str", "path_like"):
                    for explicit in (True, False):
                        yield {"k": "container", "base": name, "wb": wb, "fmt": fmt, "ch": ch, "explicit": explicit, "suffix": suffix}
            # a suffix naming another supported format: the caller's explicit file_type is what counts
            for other in ("md", "csv", "xls", "xlsx"):
                if other != fmt:
                    for ch in ("path_str", "path_like"):
                        yield {"k": "container", "base": name, "wb": wb, "fmt": fmt, "ch": ch, "explicit": True, "suffix": "." + other}


TYPED_WB = {
    "survey": [
        {"type": "integer", "name": "a", "label": "A", "default": "5", "required": "TRUE"},
        {"type": "decimal", "name": "b", "label": "B", "default": "1.5", "read_only": "FALSE"},
        {"type": "decimal", "name": "d", "label": "D", "default": "0.30000000000000004"},
        {"type": "decimal", "name": "e", "label": "E", "default": "0.00001"},
        {"type": "decimal", "name": "f", "label": "F", "default": "0.000000123", "constraint": ". > 0.00000001"},
        {"type": "select_one c", "name": "s", "label": "S", "default": "1"},
        {"type": "begin repeat", "name": "r", "label": "R", "repeat_count": "3"},
        {"type": "text", "name": "t", "label": "2024"},
        {"type": "end repeat"},
    ],
    "choices": [{"list_name": "c", "name": "1", "label": "1"}, {"list_name": "c", "name": "2", "label": "two"}],
    "settings": [{"form_id": "fid", "version": "2024021501"}],
}


def typed_cells():
    out = []
    for s in ("survey", "choices", "settings"):
        for ri, row in enumerate(TYPED_WB[s]):
            for k, v in row.items():
                if k in ("list_name",):
                    continue
                try:
                    float(v)
                    out.append((s, ri, k, "num"))
                except ValueError:
                    if v in ("TRUE", "FALSE"):
                        out.append((s, ri, k, "bool"))
    return out


def gen_typed(tier):
    cells = typed_cells()
    for fmt in ("xls", "xlsx"):
        # a header cell that is a number / a boolean (an unknown column named 2024 / 1.5)
        for hv in (2024, 1.5):
            for sheet in ("survey", "choices", "settings"):
                yield {"k": "typed", "fmt": fmt, "mode": "text", "only": -1, "hdr": [sheet, hv]}
        for mode in ("text", "native", "float"):
            yield {"k": "typed", "fmt": fmt, "mode": mode, "only": None}
            for ci in range(len(cells)):
                yield {"k": "typed", "fmt": fmt, "mode": mode, "only": ci}


NOISE_WB = {
    "survey": [{"type": "text", "name": "q", "label": "La bel"}, {"type": "select_one c", "name": "s", "label": "S", "hint": "hi nt"}],
    "choices": [{"list_name": "c", "name": "x", "label": "Ch oice"}, {"list_name": "c", "name": "y", "label": "Y"}],
    "settings": [{"form_title": "Ti tle", "form_id": "nid"}],
}
NOISE_CELLS = [("survey", 0, "label"), ("choices", 0, "label"), ("settings", 0, "form_title")]
NOISE_KINDS = ["lead", "trail", "both", "nbsp", "nbsp-edge", "double"]


def gen_text_noise(tier):
    for fmt in ("xls", "xlsx", "csv", "md"):
        for ci in range(len(NOISE_CELLS)):
            for kind in NOISE_KINDS:
                if "nbsp" in kind and fmt in ("csv", "md"):
                    continue
                yield {"k": "textnoise", "fmt": fmt, "cell": ci, "kind": kind}


def gen_shape(tier):
    for fmt in ("xls", "xlsx"):
        for sheet in ("survey", "choices"):
            for pos in ("after-header", "middle", "before-last"):
                for n in (1, 59, 60, 61):
                    yield {"k": "shape", "fmt": fmt, "sheet": sheet, "what": "rows", "pos": pos, "n": n}
                for n in (1, 19, 20, 21):
                    yield {"k": "shape", "fmt": fmt, "sheet": sheet, "what": "cols", "pos": pos, "n": n}
            # blank rows in the survey and the choices sheet of one workbook
            if sheet == "survey":
                for n in (1, 2):
                    yield {"k": "shape", "fmt": fmt, "sheet": sheet, "what": "rows-both", "pos": "middle", "n": n}
            # several separate runs, each within the limit, together beyond it: every run is judged on its own
            for ns in ([30, 31], [35, 35], [59, 60], [60, 60], [1, 60], [25, 25, 25], [60, 60, 60]):
                yield {"k": "shape", "fmt": fmt, "sheet": sheet, "what": "rows-multi", "pos": "multi", "n": ns}
            for ns in ([10, 11], [19, 20], [20, 20], [7, 7, 7], [20, 20, 20]):
                yield {"k": "shape", "fmt": fmt, "sheet": sheet, "what": "cols-multi", "pos": "multi", "n": ns}
            for n in (1, 3):
                yield {"k": "shape", "fmt": fmt, "sheet": sheet, "what": "trail-rows", "pos": "end", "n": n}
                yield {"k": "shape", "fmt": fmt, "sheet": sheet, "what": "trail-cols", "pos": "end", "n": n}
    # blank rows between the header and the values of the settings sheet carry no meaning
    for fmt in ("xls", "xlsx"):
        for n in (1, 2, 5):
            yield {"k": "shape", "fmt": fmt, "sheet": "settings", "what": "rows", "pos": "after-header", "n": n}
    # columns without a header inside the data, in the text containers as well (a spacer / remarks column)
    for fmt in ("md", "csv"):
        for sheet in ("survey", "choices"):
            for pos in ("after-header", "middle", "before-last"):
                for n in (1, 3):
                    yield {"k": "shape", "fmt": fmt, "sheet": sheet, "what": "cols", "pos": pos, "n": n}
    for fmt in ("xls", "xlsx", "md", "csv"):
        for case_kind in ("title", "upper"):
            yield {"k": "sheetcase", "fmt": fmt, "case": case_kind}


def gen_corpus(tier):
    """the frozen corpus of realistic workbooks (xmc/corpus.py) written into every container by the harness's own writers"""
    from xmc import corpus

    for cid, name, wb in corpus.forms():
        # the equivalent dict has every row's cells in column order, as a reader delivers them (the frozen JSON has them sorted)
        wb = {s: [{h: r[h] for h in render.headers_of(wb, s) if h in r} for r in rows] for s, rows in wb.items()}
        blank = any(not r for rows in wb.values() for r in rows)
        for fmt in ("md", "csv", "xls", "xlsx"):
            if blank and fmt in ("md", "csv"):
                continue  # interior blank rows cannot be written in md / csv
            yield {"k": "container", "base": f"corpus:{cid}", "wb": wb, "fmt": fmt, "ch": "bytes", "explicit": True}


SPACE = GenSpace({"corpus": gen_corpus, "typed": gen_typed, "textnoise": gen_text_noise, "shape": gen_shape, "containers": gen_containers, "paths": gen_paths}, chunk=120)
blocks = SPACE.blocks
expand = SPACE.expand
_BASES = {}


def bases(tier):
    if tier not in _BASES:
        _BASES[tier] = base_forms(tier)
    return _BASES[tier]


def required_outcomes(tier):
    return {"same", "truncated-as-documented"}


# ---------------------------------------------------------------- execution ----------
def deliver(src, fmt, ch, explicit, stem="stemX", suffix=None):
    """-> (argument for convert, kwargs, cleanup callable)"""
    fmt = fmt.split("-")[0]
    kw = {"file_type": "." + fmt} if explicit else {}
    data = src.encode("utf-8") if isinstance(src, str) else src
    if ch == "str":
        return src, kw, None
    if ch == "bytes":
        return data, kw, None
    if ch == "bytes-bom":
        # as saved by a spreadsheet program: UTF-8 with a byte-order mark
        return b"\xef\xbb\xbf" + data, kw, None
    if ch == "bytes-blank-lines":
        # a line of blanks between the rows of a sheet is an empty row
        lines = data.split(b"\n")
        k_ = next((i for i, ln in enumerate(lines) if ln.startswith(b'"",') or ln.startswith(b",")), 0) + 1
        lines[k_:k_] = [b"   "]
        return b"\n".join(lines), kw, None
    if ch == "BytesIO":
        return io.BytesIO(data), kw, None
    if ch == "BytesIO-at-end":
        # as left behind by a writer (Workbook.save(stream), buf.write(..)): the content is what counts, not the position
        b = io.BytesIO()
        b.write(data)
        return b, kw, None
    if ch == "BytesIO-twice":
        # the same stream object handed to convert() a second time
        b = io.BytesIO(data)
        try:
            run_convert(b, **kw)
        except Exception:  # noqa: BLE001
            pass
        return b, kw, None
    p = os.path.join(tmpdir(), f"{stem}.{fmt}" if suffix is None else f"{stem}{suffix}")
    with open(p, "wb") as f:
        f.write(data)
    if ch == "file":
        fh = open(p, "rb")

        def done():
            fh.close()
            os.unlink(p)

        return fh, kw, done
    if ch == "path_str":
        return p, kw, lambda: os.unlink(p)
    return pathlib.Path(p), kw, lambda: os.unlink(p)


def outcome_key(out):
    if out.kind == "ok":
        return ("ok", out.xform, tuple(out.warnings), out.itemsets)
    # a refusal must be the same refusal through every container (same error type and text)
    return (out.kind, out.exc, " ".join((out.msg or "").split()) if out.kind == "reject" else "")


def describe_diff(a, b):
    if a[0] != b[0]:
        return f"outcome {a[:2]} vs {b[:2]}"
    if a[0] != "ok":
        return f"{a} vs {b}"
    if a[1] != b[1]:
        i = next((i for i, (x, y) in enumerate(zip(a[1], b[1])) if x != y), min(len(a[1]), len(b[1])))
        return f"xform differs at {i}: ...{a[1][max(0, i - 60):i + 60]!r} vs ...{b[1][max(0, i - 60):i + 60]!r}"
    if a[2] != b[2]:
        return f"warnings {a[2]} vs {b[2]}"
    return f"itemsets {a[3]!r} vs {b[3]!r}"


def tables_of(wb):
    return {s: render.table(wb, s) for s in render.sheet_names(wb)}


def check_one(case):
    k = case["k"]
    viol = []
    cleanup = None
    expect_same = True
    if k == "container":
        wb = case["wb"]
        fmt = case["fmt"]
        if fmt == "md" and not render.md_representable(wb):
            return {"outcome": "not-representable", "nt": False, "viol": [], "tr": 1}
        src, _ = render.render(wb, fmt)
        ref_wb = with_headers(wb)
        if case["ch"].startswith("path"):
            ref_wb["fallback_form_name"] = "stemX"
        arg, kw, cleanup = deliver(src, fmt, case["ch"], case["explicit"], suffix=case.get("suffix"))
        sig = f"container:{fmt}:{case['ch']}:{'explicit' if case['explicit'] else 'implicit'}" + (":odd-suffix" if case.get("suffix") is not None else "")
    elif k == "typed":
        cells = typed_cells()
        wb = TYPED_WB
        tabs = tables_of(wb)
        for ci, (s, ri, col, kind) in enumerate(cells):
            if case["only"] is not None and case["only"] != ci:
                continue
            hs = tabs[s][0]
            v = wb[s][ri][col]
            if case["mode"] == "text":
                tv = v
            elif kind == "bool":
                tv = v == "TRUE"
            elif case["mode"] == "native":
                tv = float(v) if "." in v else int(v)
            else:
                tv = float(v)
            tabs[s][ri + 1][hs.index(col)] = tv
        ref = wb
        if case.get("hdr"):
            hs_, hv = case["hdr"]
            tabs[hs_][0].append(hv)
            for r_ in tabs[hs_][1:]:
                r_.append("v")
            hname = "TRUE" if hv is True else str(hv)
            ref = {s_: [dict(r_) for r_ in rows_] for s_, rows_ in wb.items()}
            for r_ in ref[hs_]:
                r_[hname] = "v"
        src, _ = render.render(wb, case["fmt"], tabs)
        ref_wb = with_headers(ref)
        arg, kw, cleanup = deliver(src, case["fmt"], "bytes", True)
        sig = f"typed:{case['fmt']}:{case['mode']}" + (f":header-{type(case['hdr'][1]).__name__}" if case.get("hdr") else "")
    elif k == "textnoise":
        wb = {s: [dict(r) for r in rows] for s, rows in NOISE_WB.items()}
        s, ri, col = NOISE_CELLS[case["cell"]]
        v = wb[s][ri][col]
        kind = case["kind"]
        noisy = {"lead": "  " + v, "trail": v + "  ", "both": " " + v + " ", "nbsp": v.replace(" ", " "),
                 "nbsp-edge": " " + v + " ", "double": v.replace(" ", "  ")}[kind]
        canon = {"nbsp-edge": " " + v + " ", "double": v.replace(" ", "  ")}.get(kind, v)
        ref = {s2: [dict(r) for r in rows] for s2, rows in wb.items()}
        ref[s][ri][col] = canon.strip() if kind != "nbsp-edge" else canon
        if kind == "nbsp-edge":
            # NBSP is not whitespace for str.strip() ... it is: '\xa0'.strip() == ''. The readers strip first.
            ref[s][ri][col] = v
        wb[s][ri][col] = noisy
        tabs = tables_of(wb)
        fmt = case["fmt"]
        if fmt in ("xls", "xlsx"):
            src, _ = render.render(wb, fmt, tabs)
        elif fmt == "csv":
            src = render.to_csv(wb)
        else:
            src = render.to_md(wb)
        ref_wb = with_headers(ref)
        arg, kw, cleanup = deliver(src, fmt, "bytes", True)
        sig = f"textnoise:{fmt}:{kind}:{s}"
    elif k == "shape":
        wb = {"survey": [{"type": "text", "name": "q1", "label": "Q1"}, {"type": "begin group", "name": "g"},
                         {"type": "select_one c", "name": "q2", "label": "Q2", "hint": "h"}, {"type": "end group"},
                         {"type": "image", "name": "q3", "label": "Q3"}],
              "choices": [{"list_name": "c", "name": "x", "label": "X", "extra": "1"}, {"list_name": "c", "name": "y"},
                          {"list_name": "c", "name": "z", "label": "Z", "extra": "3"}],
              "settings": [{"form_title": "Shape title", "form_id": "shape_id", "version": "3"}]}
        tabs = tables_of(wb)
        ref = {s: [dict(r) for r in rows] for s, rows in wb.items()}
        s, n, what = case["sheet"], case["n"], case["what"]
        t = tabs[s]
        nrows = len(t) - 1
        if what == "rows-both":
            for s_ in ("survey", "choices"):
                t_ = tabs[s_]
                at = 1 + (len(t_) - 1) // 2
                t_[at:at] = [[None] * len(t_[0]) for _ in range(n)]
                ref[s_][at - 1:at - 1] = [{} for _ in range(n)]
        elif what == "rows-multi":
            width = len(t[0])
            ats = [1, nrows, 1 + nrows // 2][:len(n)]
            for at, k_ in sorted(zip(ats, n), reverse=True):
                t[at:at] = [[None] * width for _ in range(k_)]
                ref[s][at - 1:at - 1] = [{} for _ in range(k_)]
        elif what == "cols-multi":
            ncols = len(t[0])
            ats = [1, ncols - 1, ncols // 2][:len(n)]
            for at, k_ in sorted(zip(ats, n), reverse=True):
                for row in t:
                    row[at:at] = [None] * k_
        elif what in ("rows", "trail-rows"):
            at = {"after-header": 1, "middle": 1 + nrows // 2, "before-last": nrows, "end": nrows + 1}[case["pos"]]
            width = len(t[0])
            t[at:at] = [[None] * width for _ in range(n)]
            if what == "rows" and s != "settings":
                ref[s][at - 1:at - 1] = [{} for _ in range(n)]
                if n > 60:
                    expect_same = False
        else:
            ncols = len(t[0])
            at = {"after-header": 1, "middle": ncols // 2, "before-last": ncols - 1, "end": ncols}[case["pos"]]
            for row in t:
                row[at:at] = [None] * n
            if what == "cols" and n > 20:
                expect_same = False
        if case["fmt"] in ("md", "csv"):
            from props.C17 import _tables_to_text

            src, _ = _tables_to_text({s_: tabs[s_] for s_ in render.sheet_names(wb)}, case["fmt"])
        else:
            src, _ = render.render(wb, case["fmt"], tabs)
        ref_wb = with_headers(ref)
        arg, kw, cleanup = deliver(src, case["fmt"], "bytes", True)
        sig = f"shape:{case['fmt']}:{what}:{n if isinstance(n, int) else '+'.join(map(str, n))}:{case['pos']}:{s}"
    else:  # sheetcase
        wb = {s: [dict(r) for r in rows] for s, rows in NOISE_WB.items()}
        ren = (lambda x: x.title()) if case["case"] == "title" else (lambda x: x.upper())
        fmt = case["fmt"]
        if fmt in ("xls", "xlsx"):
            tabs = {ren(s): t for s, t in tables_of(wb).items()}
            src, _ = render.render(wb, fmt, tabs)
        else:
            wb2 = {ren(s): rows for s, rows in wb.items()}
            src = render.to_csv(wb2) if fmt == "csv" else render.to_md(wb2)
            src = src  # sheet order is kept by render for unknown-case names
        ref_wb = with_headers(wb)
        ref_wb["sheet_names"] = [ren(s) for s in render.sheet_names(wb)]
        arg, kw, cleanup = deliver(src, fmt, "bytes", True)
        sig = f"sheetcase:{fmt}:{case['case']}"
    try:
        got = run_convert(arg, **kw)
    finally:
        if cleanup:
            cleanup()
    want = run_convert(ref_wb)
    a, b = outcome_key(got), outcome_key(want)
    ntr = sum(len(v) for kk, v in ref_wb.items() if isinstance(v, list))
    if expect_same:
        if a != b:
            viol.append((sig, describe_diff(a, b)))
        return {"outcome": "same" if a == b else "different", "nt": a == b and a[0] == "ok", "viol": viol, "tr": ntr}
    # beyond the documented limits truncation is allowed (negative control: shows the limit is live)
    return {"outcome": "truncated-as-documented" if a != b else "same-beyond-limit", "nt": False, "viol": [], "tr": ntr}

# as-built additions of the seventh wave (reported with the bound in the evidence)
BOUND = {k: v + "; seventh wave: " + "the frozen corpus rendered to md / csv / xls / xlsx by the harness's writers" for k, v in BOUND.items()}
