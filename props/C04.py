"""C04 - survey rows map one-to-one, in order and nesting, onto instance and body.
Full reference model of the instance tree and of the body control tree."""

import re

from xmc import observe as O
from xmc.impl import run_convert
from xmc.pathmodel import norm_ws
from xmc.spaces import flatten, forests_upto
from props.C03 import forest_from_json, forest_to_json

ID = "C04"
LEVEL = "model_checking"
TECHNIQUE = "explicit-state small-scope exploration: every begin/end row sequence up to the bound x rotating question-type/container alphabets, and every single-row insertion at every gap, executed on the implementation and compared with a reference instance/body tree model"
CLAIM = ("Every well-nested row sequence up to the bound, with leaves and containers rotating over the whole type/appearance/parameter "
         "alphabet, and every insertion of every alphabet row (plus disabled, blank and comment rows) at every gap of every small base "
         "form, is converted by the real code; the complete primary instance tree (incl. generated nodes and templates) and the "
         "complete body control tree (tags, refs, mediatype/appearance/parameter attributes, group+repeat wrapping) must equal the reference model.")
RULE = (
    "tree cases = (forest in L(N,3), question rotation offset over the row alphabet, container rotation offset); insertion cases = "
    "(base forest in L(3,3), gap, inserted row spec); non-trivial = accepted case whose instance and body trees were both compared "
    "and which contains a generated node, a container or a non-visible row; distinct by canonical case hash"
)
ASSUMPTIONS = [
    "the reference type/parameter table is frozen under /verif (reconciled once with the pinned tree)",
    "itemset children, labels and binds are other properties' business (C09, C06-C08, C05): only control tags, refs and attributes are compared",
]
BOUND = {
    "quick": "L(4,3) x every rotation offset of the 58-row question alphabet (stride 7) x 9 container variants; L(3,3) x every gap x (58 rows + disabled/blank/comment rows)",
    "thorough": "L(5,3) x every rotation offset x 9 container variants; L(4,3) x every gap x every row",
}
# as-built additions to the bound (kept next to BOUND so that the evidence reports them)
BOUND = {k: v + "; plus: " + 'visible question types with a calculation and label / hint / trigger / none of them; repeat_count expressions mixing a reference with an operator / function; explicit row sequences: table-list group holding <=4 (quick) / <=5 (thorough) items from {select_one, select_multiple, text, nested group, nested repeat, empty group}, and 2-4 rows with a disabled cell from {absent, yes, no, true(), TRUE}' for k, v in BOUND.items()}

CHOICES = [{"list_name": "c", "name": "x", "label": "X"}, {"list_name": "c", "name": "y", "label": "Y"},
           {"list_name": "c2", "name": "z", "label": "Z"}]
OSM = [{"list_name": "o", "name": "building", "label": "B"}]
EXT = [{"list_name": "e", "name": "p", "label": "P", "state": "s"}]
ODKNS = "{%s}" % O.ODK


def _q(t, **kw):
    return {"type": t, "label": "L", **kw}


# (row template, control (tag, attrs) | None, instance: True | False | "meta")
QROWS = [
    (_q("text"), ("input", {}), True),
    (_q("text", parameters="rows=3"), ("input", {"rows": "3"}), True),
    (_q("text", appearance="multiline numbers"), ("input", {"appearance": "multiline numbers"}), True),
    (_q("string"), ("input", {}), True),
    (_q("integer"), ("input", {}), True),
    (_q("int", appearance="thousands-sep"), ("input", {"appearance": "thousands-sep"}), True),
    (_q("decimal"), ("input", {}), True),
    (_q("date", appearance="month-year"), ("input", {"appearance": "month-year"}), True),
    (_q("time"), ("input", {}), True),
    (_q("dateTime"), ("input", {}), True),
    (_q("geopoint", parameters="capture-accuracy=10 warning-accuracy=20", appearance="maps"),
     ("input", {"appearance": "maps", "accuracyThreshold": "10", "unacceptableAccuracyThreshold": "20"}), True),
    (_q("geopoint", parameters="allow-mock-accuracy=true"), ("input", {}), True),
    (_q("geotrace"), ("input", {}), True),
    (_q("geoshape", parameters="allow-mock-accuracy=false"), ("input", {}), True),
    (_q("barcode"), ("input", {}), True),
    (_q("note"), ("input", {}), True),
    (_q("acknowledge"), ("trigger", {}), True),
    (_q("range"), ("range", {"start": "1", "end": "10", "step": "1"}), True),
    (_q("range", parameters="start=2 end=8 step=2", appearance="picker"), ("range", {"start": "2", "end": "8", "step": "2", "appearance": "picker"}), True),
    (_q("range", parameters="start=0.5 end=2.5 step=0.5"), ("range", {"start": "0.5", "end": "2.5", "step": "0.5"}), True),
    (_q("image"), ("upload", {"mediatype": "image/*"}), True),
    (_q("image", parameters="max-pixels=640 app=com.ex.app", appearance="annotate"),
     ("upload", {"mediatype": "image/*", "appearance": "annotate", "intent": "com.ex.app"}), True),
    (_q("photo", appearance="new-front"), ("upload", {"mediatype": "image/*", "appearance": "new-front"}), True),
    (_q("audio", parameters="quality=low"), ("upload", {"mediatype": "audio/*"}), True),
    (_q("video"), ("upload", {"mediatype": "video/*"}), True),
    (_q("file", **{"body::accept": ".pdf"}), ("upload", {"mediatype": "application/*", "accept": ".pdf"}), True),
    (_q("select_one c"), ("select1", {}), True),
    (_q("select_one c", appearance="minimal"), ("select1", {"appearance": "minimal"}), True),
    (_q("select_one c", parameters="randomize=true seed=3"), ("select1", {}), True),
    (_q("select_one c or_other"), ("select1", {}), "other"),
    (_q("select_multiple c"), ("select", {}), True),
    (_q("select_multiple c or_other", appearance="compact"), ("select", {"appearance": "compact"}), "other"),
    (_q("rank c"), (ODKNS + "rank", {}), True),
    (_q("select_one_from_file f.csv"), ("select1", {}), True),
    (_q("select_multiple_from_file f.geojson", parameters="value=v label=l"), ("select", {}), True),
    (_q("select_one_external e", choice_filter="state='s'"), ("input", {}), True),
    (_q("select_one c2", appearance="search('f')"), ("select1", {"appearance": "search('f')"}), True),
    (_q("osm o"), ("upload", {"mediatype": "osm/*"}), True),
    (_q("osm"), ("upload", {"mediatype": "osm/*"}), True),
    ({"type": "calculate", "calculation": "1 + 1"}, None, True),
    ({"type": "calculate", "calculation": "1", "label": "L"}, None, True),
    ({"type": "hidden"}, None, True),
    ({"type": "start"}, None, True),
    ({"type": "end"}, None, True),
    ({"type": "today"}, None, True),
    ({"type": "deviceid"}, None, True),
    ({"type": "username"}, None, True),
    ({"type": "email"}, None, True),
    ({"type": "phonenumber"}, None, True),
    ({"type": "start-geopoint"}, None, True),
    ({"type": "background-audio"}, None, True),
    ({"type": "background-geopoint", "trigger": "${first}"}, None, True),
    ({"type": "calculate", "calculation": "${first} + 1", "trigger": "${first}"}, None, True),
    ({"type": "xml-external"}, None, False),
    ({"type": "csv-external"}, None, False),
    ({"type": "audit", "NONAME": True}, None, "meta"),
    ({"type": "note", "label": "L", "NONAME": True}, ("input", {}), "gen-note"),
    (_q("text", default="now()"), ("input", {}), True),
    # visible types with a calculation: shown as soon as the row has a label or a hint, model-only otherwise
    ({"type": "integer", "calculation": "2 + 2", "hint": "H"}, ("input", {}), True),
    ({"type": "text", "calculation": "3 + 3"}, None, True),
    ({"type": "text", "calculation": "4 + 4", "label": "L"}, ("input", {}), True),
    ({"type": "decimal", "calculation": "5 + 5", "label": "L", "hint": "H"}, ("input", {}), True),
    ({"type": "select_one c", "calculation": "'x'", "hint": "H"}, ("select1", {}), True),
    ({"type": "text", "calculation": "6 + 6", "trigger": "${first}", "hint": "H"}, ("input", {}), True),
    ({"type": "text", "calculation": "7 + 7", "trigger": "${first}"}, None, True),
    # legacy spellings of the question types: the same control as the modern name
    (_q("q picture"), ("upload", {"mediatype": "image/*"}), True),
    (_q("q image"), ("upload", {"mediatype": "image/*"}), True),
    (_q("q audio"), ("upload", {"mediatype": "audio/*"}), True),
    (_q("q video"), ("upload", {"mediatype": "video/*"}), True),
    (_q("add image prompt"), ("upload", {"mediatype": "image/*"}), True),
    (_q("add photo prompt"), ("upload", {"mediatype": "image/*"}), True),
    (_q("add audio prompt"), ("upload", {"mediatype": "audio/*"}), True),
    (_q("add video prompt"), ("upload", {"mediatype": "video/*"}), True),
    (_q("q location"), ("input", {}), True),
    (_q("q geotrace"), ("input", {}), True),
    (_q("q string"), ("input", {}), True),
    (_q("q int"), ("input", {}), True),
    (_q("add date prompt"), ("input", {}), True),
    (_q("add note prompt"), ("input", {}), True),
    (_q("q acknowledge"), ("trigger", {}), True),
    (_q("add barcode prompt"), ("input", {}), True),
    (_q("add select one prompt using c"), ("select1", {}), True),
    (_q("add select multiple prompt using c"), ("select", {}), True),
]
CONT = [
    ("g", {}), ("g", {"appearance": "field-list"}), ("r", {}), ("r", {"repeat_count": "1 + 1"}),
    ("r", {"repeat_count": "${first}"}), ("g", {"appearance": "table-list"}),
    ("g", {"appearance": "field-list", "NOLABEL": True}), ("r", {"repeat_count": "3", "appearance": "field-list"}),
    ("g", {"appearance": "table-list compact"}),
    ("r", {"repeat_count": "${first} + 1"}), ("r", {"repeat_count": "if(${first} > 2, ${first}, 2)"}),
]
SPECIAL = ["disabled", "disabled-no", "blank", "comment"]


def _forest(fi):
    for i, f in enumerate(forests_upto(6, 3)):
        if i == fi:
            return f
    raise IndexError(fi)


def _sym_rows(sym, nm):
    sel = {"type": "select_one c", "name": nm, "label": "L"}
    if sym == "S":
        return [sel]
    if sym == "M":
        return [{"type": "select_multiple c", "name": nm, "label": "L"}]
    if sym == "T":
        return [{"type": "text", "name": nm, "label": "L"}]
    if sym == "G":
        return [{"type": "begin group", "name": nm, "label": "L"}, dict(sel, name=nm + "s"), {"type": "end group"}]
    if sym == "R":
        return [{"type": "begin repeat", "name": nm, "label": "L"}, dict(sel, name=nm + "s"), {"type": "end repeat"}]
    if sym == "E":
        return [{"type": "begin group", "name": nm, "label": "L"}, {"type": "end group"}]
    raise ValueError(sym)


def explicit_cases(tier):
    """explicit row sequences for structures that need more nodes than the layout budget:
    (1) a table-list group whose selects are separated by nested sections, (2) several rows with a `disabled` cell"""
    import itertools

    n = 4 if tier == "quick" else 5
    for k in range(2, n + 1):
        for seq in itertools.product("SMGRTE", repeat=k):
            if not any(x in "SM" for x in seq) or not any(x in "GRE" for x in seq):
                continue
            for lab in (True, False):
                rows = [{"type": "begin group", "name": "tl", "appearance": "table-list", **({"label": "TL"} if lab else {})}]
                for i, x in enumerate(seq):
                    rows += _sym_rows(x, f"n{i}")
                rows.append({"type": "end group"})
                rows.append({"type": "select_one c", "name": "after", "label": "L"})
                yield {"k": "rows", "rows": rows, "what": "table-list"}
    # several selects on one list, with and without or_other (each or_other select has its own companion)
    sels = ["select_one c", "select_one c or_other", "select_multiple c or_other", "rank c", "select_multiple c"]
    for k in (2, 3):
        for combo in itertools.product(sels, repeat=k):
            if sum(1 for t in combo if "or_other" in t) < 2 and not (tier == "thorough" and any("or_other" in t for t in combo)):
                continue
            for wrap in (None, "group", "repeat"):
                rows = [{"type": t, "name": f"s{i}", "label": "L", **({"appearance": "compact"} if t == "select_multiple c or_other" else {})}
                        for i, t in enumerate(combo)]
                if wrap:
                    rows = [{"type": f"begin {wrap}", "name": "w", "label": "W"}, *rows, {"type": f"end {wrap}"}]
                yield {"k": "rows", "rows": rows, "what": "or-other-shared-list"}
    # the meta block: audit, instanceID, instanceName, entity - in that order, each present iff its feature is
    for audit in (False, True):
        for iname in (False, True):
            for omit in (False, True):
                for ent in (False, True):
                    for grp in (False, True):
                        rows = [{"type": "text", "name": "q", "label": "Q", **({"save_to": "p"} if ent else {})}]
                        if audit:
                            rows.insert(1 if grp else 0, {"type": "audit"})
                        if grp:
                            rows = [rows[0], {"type": "begin group", "name": "g", "label": "G"}, {"type": "text", "name": "i", "label": "I"}, *rows[1:], {"type": "end group"}]
                        yield {"k": "rows", "rows": rows, "what": "meta",
                               "meta": {"instance_name": iname, "omit": omit, "entity": ent}}
    vals = [None, "yes", "no", "true()", "TRUE"]
    for k in (2, 3) if tier == "quick" else (2, 3, 4):
        for combo in itertools.product(vals, repeat=k):
            if sum(1 for v in combo if v is not None) < 2:
                continue
            for wrap in (False, True):
                rows = []
                for i, v in enumerate(combo):
                    r = {"type": "text", "name": f"d{i}", "label": "L"}
                    if v is not None:
                        r["disabled"] = v
                    rows.append(r)
                rows.append({"type": "text", "name": "keep", "label": "L"})
                if wrap:
                    rows = [{"type": "begin repeat", "name": "w", "label": "W"}, *rows, {"type": "end repeat"}]
                yield {"k": "rows", "rows": rows, "what": "disabled"}


def blocks(tier):
    ne = sum(1 for _ in explicit_cases(tier))
    for i in range(0, ne, 200):
        yield ("rows", i, min(ne, i + 200))
    N = 4 if tier == "quick" else 5
    NI = 3 if tier == "quick" else 4
    for fi in range(sum(1 for _ in forests_upto(N, 3))):
        yield ("tree", fi)
    for fi in range(sum(1 for _ in forests_upto(NI, 3))):
        yield ("ins", fi)


def expand(block, tier):
    if block[0] == "rows":
        import itertools

        yield from itertools.islice(explicit_cases(tier), block[1], block[2])
        return
    forest = _forest(block[1])
    fj = forest_to_json(forest)
    if block[0] == "tree":
        for qsel in range(len(QROWS)):
            for csel in range(len(CONT)):
                yield {"k": "tree", "f": fj, "q": qsel, "c": csel}
    else:
        nrows = len(flatten(forest, "abcdefgh"))
        # gaps are positions in the row list (begin/end rows included)
        base_rows = len(build_rows({"k": "tree", "f": fj, "q": 0, "c": 0, "plain": True})[0])
        for gap in range(1, base_rows + 1):
            for qi in range(len(QROWS)):
                yield {"k": "ins", "f": fj, "gap": gap, "row": qi}
            for sp in SPECIAL:
                yield {"k": "ins", "f": fj, "gap": gap, "sp": sp}
            for ci in range(len(CONT)):
                yield {"k": "ins", "f": fj, "gap": gap, "cont": ci}


def required_outcomes(tier):
    return {"ok"}


# ---------------------------------------------------------------- IR -> rows ---------
def build_rows(case):
    """rows (with 'first' question on top) for the case; names n0, n1, ... by node index"""
    if case["k"] == "rows":
        return [{"type": "integer", "name": "first", "label": "First"}, *[dict(r) for r in case["rows"]]], None
    forest = forest_from_json(case["f"])
    rows = [{"type": "integer", "name": "first", "label": "First"}]
    counter = [0]
    plain = case["k"] == "ins" or case.get("plain")

    def rec(f):
        for t in f:
            i = counter[0]
            counter[0] += 1
            nm = f"n{i}"
            if t[0] == "q":
                tmpl = QROWS[0][0] if plain else QROWS[(case["q"] + i * 7) % len(QROWS)][0]
                rows.append(mk_row(tmpl, nm))
            else:
                kind, extra = ("g", {}) if plain else CONT[(case["c"] + i * 5) % len(CONT)]
                if kind != t[0]:
                    kind, extra = t[0], {}
                rows.append(mk_cont(kind, extra, nm))
                rec(t[1])
                rows.append({"type": "end group" if kind == "g" else "end repeat"})

    rec(forest)
    if case["k"] == "ins":
        gap = case["gap"]
        if "row" in case:
            ins = [mk_row(QROWS[case["row"]][0], "ins")]
        elif "cont" in case:
            kind, extra = CONT[case["cont"]]
            ins = [mk_cont(kind, extra, "ins"), mk_row(QROWS[26][0], "insq"), {"type": "end group" if kind == "g" else "end repeat"}]
        else:
            sp = case["sp"]
            ins = [{"disabled": {"type": "text", "name": "ins", "label": "L", "disabled": "yes"},
                    "disabled-no": {"type": "text", "name": "ins", "label": "L", "disabled": "no"},
                    "blank": {}, "comment": {"hint": "just a comment"}}[sp]]
        rows = rows[:gap] + ins + rows[gap:]
    # at most one audit row makes sense per form: later ones become text
    seen_audit = False
    for r in rows:
        if r.get("type") == "audit":
            if seen_audit:
                r["type"] = "hidden"
                r["name"] = "aud2_" + str(rows.index(r))
            seen_audit = True
    return rows, None


def mk_row(tmpl, nm):
    r = dict(tmpl)
    if r.pop("NONAME", False):
        return r
    return {"type": r["type"], "name": nm, **{k: v for k, v in r.items() if k != "type"}}


def mk_cont(kind, extra, nm):
    r = {"type": "begin group" if kind == "g" else "begin repeat", "name": nm, "label": "L"}
    r.update(extra)
    if r.pop("NOLABEL", False):
        del r["label"]
    return r


# ---------------------------------------------------------------- reference model ----
def spec_of(row):
    """(control | None, instance kind) for a question row, from the frozen alphabet"""
    skip = ("name", "label", "disabled", "NONAME", "save_to")
    key = {k: v for k, v in row.items() if k not in skip}
    for tmpl, ctl, inst in QROWS:
        if {k: v for k, v in tmpl.items() if k not in skip} == key and bool(tmpl.get("NONAME")) == ("name" not in row):
            return ctl, inst
    raise KeyError(f"row not in the reference alphabet: {row}")


class ExpectedReject(Exception):
    pass


def ref_model(rows):
    """Independent walk of the rows -> (instance tree, body tree).
    instance node = (name, children, flag) flag in '', 'R' (repeat); body node = (tag, ref, attrs, children)."""
    root_inst, root_body = [], []
    stack = [{"inst": root_inst, "body": root_body, "path": "/data", "table": None, "kind": None}]
    meta = []
    for idx, row in enumerate(rows):
        rownum = idx + 2
        top = stack[-1]
        if "disabled" in row:
            if row["disabled"] in ("yes", "true", "TRUE", "Yes", "YES", "True", "true()"):
                continue
            row = {k: v for k, v in row.items() if k != "disabled"}
        if not row or ("type" not in row and "name" not in row and "label" not in row):
            continue
        ty = row["type"]
        if ty.startswith("end "):
            stack.pop()
            continue
        if ty.startswith("begin "):
            kind = "r" if "repeat" in ty else "g"
            nm = row["name"]
            p = top["path"] + "/" + nm
            attrs = {}
            ap = row.get("appearance")
            table = None
            ci, cb = [], []
            if kind == "r" and row.get("repeat_count"):
                rc = row["repeat_count"]
                if re.fullmatch(r"\$\{[^}]+\}", rc.strip()):
                    attrs[O.J + "count"] = "REF"
                else:
                    top["inst"].append((nm + "_count", [], ""))
                    attrs[O.J + "count"] = "HELPER:" + nm + "_count"
            gattrs = {}
            if ap:
                words = ap.split()
                if "table-list" in words:
                    ap = " ".join(["field-list"] + [w for w in words if w != "table-list"])
                    table = True
                    if "label" in row:
                        h = f"generated_table_list_label_{rownum}"
                        ci.append((h, [], ""))
                        cb.append(("input", p + "/" + h, {}, []))
                gattrs["appearance"] = ap
            if kind == "r":
                battrs = dict(attrs)
                if ap:
                    battrs["appearance"] = ap
                top["inst"].append((nm, ci, "R"))
                top["body"].append(("group", p, {}, [("repeat", p, battrs, cb)]))
            else:
                top["inst"].append((nm, ci, ""))
                top["body"].append(("group", p, gattrs, cb))
            stack.append({"inst": ci, "body": cb, "path": p, "table": table, "kind": kind})
            continue
        ctl, inst = spec_of(row)
        if inst == "meta":
            meta.append("audit")
            continue
        if inst is False:
            continue
        nm = row.get("name")
        if inst == "gen-note":
            nm = f"generated_note_name_{rownum}"
        p = top["path"] + "/" + nm
        if ctl is not None and (ctl[0] in ("select1", "select") or ctl[0].endswith("}rank") or ty.startswith("select_one_external")) and top["table"]:
            lst = ty.split(" using ")[1].split()[0] if " using " in ty else (ty.split()[1] if len(ty.split()) > 1 else "")
            if "choice_filter" in row or (top["table"] is not True and top["table"] != lst):
                raise ExpectedReject("table-list selects must share one list and cannot be filtered")
            if top["table"] is True:
                if lst not in {c["list_name"] for c in CHOICES}:
                    raise ExpectedReject("the first select of a table-list group must use a list of the choices sheet")
                top["table"] = lst
                h = f"reserved_name_for_field_list_labels_{rownum}"
                top["inst"].append((h, [], ""))
                top["body"].append((ctl[0], top["path"] + "/" + h, {"appearance": "label"}, []))
            ctl = (ctl[0], {**ctl[1], "appearance": "list-nolabel"})
        top["inst"].append((nm, [], ""))
        if ctl is not None:
            top["body"].append((ctl[0], p, dict(ctl[1]), []))
        if inst == "other":
            top["inst"].append((nm + "_other", [], ""))
            top["body"].append(("input", p + "_other", {}, []))
    root_inst.append(("meta", [(m, [], "") for m in meta[:1]] + [("instanceID", [], "")], ""))
    return root_inst, root_body


def expand_templates(inst, in_repeat=False, in_tmpl=False):
    """expected observed instance: [(name, children, is_template)]; outermost repeats appear as
    a template copy followed by an instance copy; nested repeats once (marked inside templates)."""
    out = []
    for nm, ch, flag in inst:
        if flag == "R":
            if not in_repeat:
                out.append((nm, expand_templates(ch, True, True), True))
                out.append((nm, expand_templates(ch, True, False), False))
            else:
                out.append((nm, expand_templates(ch, True, in_tmpl), in_tmpl))
        else:
            out.append((nm, expand_templates(ch, in_repeat, in_tmpl), False))
    return out


def obs_inst(el, in_tmpl=False):
    out = []
    for c in el:
        t = O.TEMPLATE in c.attrib
        item = (O.local(c.tag), obs_inst(c, in_tmpl or t), t)
        # Inside a template subtree a nested repeat may be followed by a plain copy of itself
        # (pyxform does this when a group sits between the two repeats, not when they nest
        # directly); the statement does not decide between the two shapes, so both are accepted.
        if in_tmpl and not t and out and out[-1][0] == item[0] and out[-1][2] and strip_t(out[-1][1]) == strip_t(item[1]):
            continue
        out.append(item)
    return out


def strip_t(tree):
    return [(n, strip_t(ch)) for n, ch, _ in tree]


CT = {"input", "select", "select1", "upload", "trigger", "range", "group", "repeat", "rank"}


def obs_body(el):
    out = []
    for c in el:
        tag = O.local(c.tag)
        if tag in CT:
            full = c.tag if c.tag.startswith(ODKNS) else tag
            attrs = {k: v for k, v in c.attrib.items() if k not in ("ref", "nodeset", "query")}
            out.append((full, c.get("ref") if c.get("ref") is not None else c.get("nodeset"), attrs, obs_body(c)))
    return out


def diff_trees(exp, got, path=""):
    """first difference between two nested lists of tuples whose last-but-varying element is children"""
    for i in range(max(len(exp), len(got))):
        if i >= len(exp):
            return f"{path}[{i}]: unexpected {got[i][:2]}"
        if i >= len(got):
            return f"{path}[{i}]: missing {exp[i][:2]}"
        e, g = exp[i], got[i]
        if len(e) == 3:  # instance (name, children, tmpl)
            if e[0] != g[0] or e[2] != g[2]:
                return f"{path}[{i}]: want {e[0]}{'(template)' if e[2] else ''} got {g[0]}{'(template)' if g[2] else ''}"
            d = diff_trees(e[1], g[1], path + "/" + e[0])
        else:  # body (tag, ref, attrs, children)
            ea = dict(e[2])
            ga = dict(g[2])
            ec = ea.get(O.J + "count")
            gc = (ga.get(O.J + "count") or "").strip()
            if ec == "REF" and gc:
                ea.pop(O.J + "count")
                ga.pop(O.J + "count")
            elif ec and ec.startswith("HELPER:") and gc.split("/")[-1] == ec[7:]:
                # which path reaches the helper is C03's business; here: it is the helper
                ea.pop(O.J + "count")
                ga.pop(O.J + "count")
            ga = {k: norm_ws(v) for k, v in ga.items()}
            if e[0] != g[0] or e[1] != g[1]:
                return f"{path}[{i}]: want <{O.local(e[0])} {e[1]}> got <{O.local(g[0])} {g[1]}>"
            if ea != ga:
                return f"{path}[{i}] <{O.local(e[0])} {e[1]}>: attributes want {ea} got {ga}"
            d = diff_trees(e[3], g[3], path + "/" + O.local(e[0]))
        if d:
            return d
    return None


def check_one(case):
    rows, _ = build_rows(case)
    wb = {"survey": rows, "choices": [dict(c) for c in CHOICES], "osm": [dict(c) for c in OSM], "external_choices": [dict(c) for c in EXT]}
    mf = case.get("meta") or {}
    st = {}
    if mf.get("instance_name"):
        st["instance_name"] = "concat('a', 'b')"
    if mf.get("omit"):
        st["omit_instanceID"] = "yes"
    if st:
        wb["settings"] = [st]
    if mf.get("entity"):
        wb["entities"] = [{"list_name": "trees", "label": "concat('e', '1')"}]
    out = run_convert(wb)
    ntr = len(rows)
    if out.kind == "crash":
        return {"outcome": "crash", "nt": False, "viol": [], "tr": ntr}
    try:
        einst, ebody = ref_model(rows)
        if mf:
            aud = [c for c in einst[-1][1] if c[0] == "audit"]
            kids = aud + ([] if mf.get("omit") else [("instanceID", [], "")]) + ([("instanceName", [], "")] if mf.get("instance_name") else []) \
                + ([("entity", [("label", [], "")], "")] if mf.get("entity") else [])
            if kids:
                einst[-1] = ("meta", kids, "")
            else:
                einst.pop()  # nothing to hold: no meta block at all
    except ExpectedReject as e:
        if out.kind == "reject":
            return {"outcome": "reject-expected", "nt": False, "viol": [], "tr": ntr}
        return {"outcome": "ok", "nt": False, "viol": [("table-list-misuse-accepted", str(e))], "tr": ntr}
    if out.kind == "reject":
        return {"outcome": "reject", "nt": False, "viol": [], "tr": ntr, "unexp": True, "why": out.msg[:160]}
    viol = []
    obs = O.Obs(out.xform)
    einst = expand_templates(einst)
    d = diff_trees(einst, obs_inst(obs.primary))
    what = case["k"] + (":" + (case.get("sp") or ("cont" if "cont" in case else "row")) if case["k"] == "ins" else "") + (":" + case["what"] if case.get("what") else "")
    if d:
        viol.append((f"instance-tree:{what}", d))
    d = diff_trees(ebody, obs_body(obs.body))
    if d:
        viol.append((f"body-tree:{what}", d))
    nt = any(r.get("type", "").startswith("begin") or r.get("type") in ("calculate", "hidden", "audit") for r in rows)
    return {"outcome": "ok", "nt": nt and not viol, "viol": viol, "tr": ntr}

# as-built additions of the seventh wave (reported with the bound in the evidence)
BOUND = {k: v + "; seventh wave: " + '18 legacy spellings of the question types in the row alphabet' for k, v in BOUND.items()}
