"""C01 - every successful conversion returns a well-formed, namespace-valid XForm with the
ODK skeleton, in compact and pretty mode.  Invariant on every reachable output."""

import itertools

from xmc import observe as O
from xmc.impl import run_convert
from xmc.ref import catalogue as cat
from xmc.spaces import GenSpace, forests_upto, rows_from_forest

ID = "C01"
LEVEL = "model_checking"
RULE = (
    "cases enumerated completely from 5 generators (type catalogue x decoration x context; "
    "settings subsets x custom-column/namespace variants; adversarial text fragments x text "
    "channels; layouts L(N,3) with rotating types; container renderings); each case is "
    "converted compact and pretty; non-trivial = conversion succeeded in both modes and the "
    "output went through the full skeleton oracle; distinct = by canonical case hash"
)
TECHNIQUE = "explicit-state small-scope exploration of the implementation (exhaustive enumeration of bounded input spaces, invariant checked on every reachable output)"
CLAIM = ("Every form of five completely enumerated bounded input spaces is converted by the real code in both print "
         "modes and every accepted output is parsed by a strict namespace-aware parser and checked against the XForm "
         "skeleton invariant; the run reports states/transitions covered. Bounded, not a proof: alphabets and sizes are stated in the evidence.")
ASSUMPTIONS = [
    "expat (xml.etree, namespace-aware) is the well-formedness/namespace verdict",
    "ODK Validate itself is not run; the skeleton oracle is structural",
    "alphabets are finite: a defect needing a character class or type outside them is not covered",
]
BOUND = {
    "quick": "types x 5 decorations x 3 contexts; settings subsets <=3 x 9 column variants; text fragments len<=1 x 17 channels x ref/no-ref; L(4,3) x 3 rotations; 4 containers x catalogue slice",
    "thorough": "types x 5 decorations x 3 contexts; settings subsets <=4 x 9 column variants; text fragments len<=2 x 17 channels x ref/no-ref; L(5,3) x 3 rotations; 4 containers x catalogue",
}
# as-built additions to the bound (kept next to BOUND so that the evidence reports them)
BOUND = {k: v + "; plus: " + '13 choice names x 6 list names with XML metacharacters x plain / translated / media lists x 3 select kinds; 7 legal namespace prefixes (hyphen, dot, digit, non-ASCII) x 6 declaration spellings (URIs containing an equals sign) x 4 use sites; survey and choices sheets in different header-delimiter styles; settings product also with an entities sheet; element names with the 52 range-edge characters of the XML name productions (first / middle / last); 1-3 choice lists x invalid extra-column headers valued in any subset of the lists' for k, v in BOUND.items()}

FRAGS = ["<", ">", "&", '"', "'", "]]>", "&amp;", "&#60;", "&lt;", "<!--", "-->", "<![CDATA[",
         '<output value="x"/>', "</label>", "{", "}", "$", "a", "é", "\U0001F600", "שלום",
         "a  b", " a", "a ", "-", "<a>", "</h:html>", "<?pi?>"]

# ---------------------------------------------------------------- generators ---------


def _dec_plain(r):
    pass


def _dec_hint(r):
    r["hint"] = "H"


def _dec_media(r):
    if "label" in r:
        r["media::image"] = "m.png"


def _dec_lang(r):
    if "label" in r:
        lab = r.pop("label")
        r["label::en"] = lab
        r["label::fr"] = lab + "f"
        r["hint::fr"] = "hf"


def _dec_guidance(r):
    r["guidance_hint"] = "G"
    r["constraint"] = ". != ''"
    r["constraint_message"] = "CM ${q}" if r.get("type") not in ("audit",) else "CM"


DECOR = [("plain", _dec_plain), ("hint", _dec_hint), ("media", _dec_media), ("lang", _dec_lang), ("guid", _dec_guidance)]


def gen_types(tier):
    for label in cat.TYPE_ROWS:
        for dname, dec in DECOR:
            for ctx in ("top", "group", "repeat"):
                yield {"wb": cat.form_for(label, ctx, dec), "meta": {"gen": "types", "t": label, "dec": dname, "ctx": ctx}, "id": "data"}


SETTINGS = [
    ("form_title", "My <T> & title"),
    ("form_id", "fid_1"),
    ("version", "2024&1"),
    ("name", "rootname"),
    ("instance_name", "concat('x', ${q})"),
    ("submission_url", "https://ex.org/s?a=1&b=2"),
    ("public_key", "MIIB<key>"),
    ("auto_send", "true"),
    ("auto_delete", "false"),
    ("style", "pages theme-grid"),
    ("namespaces", 'zz="http://zz.example/ns" yy=http://yy.example'),
    ("attribute::plain", "pv"),
    ("attribute::id", "other-id"),          # a custom root attribute may not displace the form id ...
    ("attribute::version", "other-version"),  # ... nor the version
    ("attribute::zz:pref", "zv"),
    ("instance_xmlns", "http://inst.example/x"),
    ("omit_instanceID", "true"),
    ("prefix", "PFX"),
    ("delimiter", "|"),
    ("default_language", "en"),
]
# custom survey columns: (tag, column, value, name-channel finding tag or None)
CUSTOM = [
    ("none", None, None),
    ("bind-plain", "bind::custom", "cv"),
    ("bind-builtin", "bind::orx:thing", "ov"),
    ("bind-zz", "bind::zz:thing", "zv"),
    ("inst-plain", "instance::ia", "iv"),
    ("inst-zz", "instance::zz:ia", "iv"),
    ("body-plain", "body::accept", "bv"),
    ("body-zz", "body::zz:b", "bv"),
    ("entities", "save_to", "p"),  # + an entities sheet: its namespace must be declared next to any custom ones
]


def gen_settings(tier):
    k = 3 if tier == "quick" else 4
    for r in range(0, k + 1):
        for sub in itertools.combinations(range(len(SETTINGS)), r):
            st = {SETTINGS[i][0]: SETTINGS[i][1] for i in sub}
            for tag, col, val in CUSTOM:
                row = {"type": "text", "name": "q", "label": "Q"}
                if col:
                    row[col] = val
                st2 = dict(st)
                if (tag.endswith("-zz") or "attribute::zz:pref" in st2) and "namespaces" not in st2:
                    # a prefixed custom name is only valid with its declaration: the
                    # undeclared variants are the 'names' generator's business
                    st2["namespaces"] = 'zz="http://zz.example/ns"'
                wb = {"survey": [row], "settings": [st2]} if st2 else {"survey": [row]}
                if tag == "entities":
                    wb["entities"] = [{"list_name": "trees", "label": "concat(${q}, 'x')"}]
                meta = {"gen": "settings", "st": sorted(st2), "col": tag}
                yield {"wb": wb, "meta": meta, "id": st2.get("form_id", "data")}


NS_PREFIXES = ["my-org", "a.b", "x_1", "\u00e9", "zz", "a-b.c_d", "z9"]
NS_SITES = ["bind::{p}:u", "instance::{p}:u", "body::{p}:u", "settings.attribute::{p}:u"]


def gen_nsprefix(tier):
    """legal namespace prefixes beyond [a-z]+ in the namespaces setting, declared in three spellings, used at every custom-attribute site"""
    for pfx in NS_PREFIXES:
        for di, decl in enumerate(('{p}="http://e.x/ns"', "{p}=http://e.x/ns", 'yy="http://y.y" {p}="http://e.x/ns"', "{p}='http://e.x/ns' yy=http://y.y",
                                   '{p}="http://e.x/ns?a=b&c=d"', "yy=http://y.y/?q=1 {p}=http://e.x/ns#f=1")):
            for site in NS_SITES:
                for ent in (False, True):
                    row = {"type": "text", "name": "q", "label": "Q"}
                    st = {"namespaces": decl.format(p=pfx)}
                    col = site.format(p=pfx)
                    if col.startswith("settings."):
                        st[col.split(".", 1)[1]] = "1"
                    else:
                        row[col] = "1"
                    wb = {"survey": [row], "settings": [st]}
                    if ent:
                        row["save_to"] = "p"
                        wb["entities"] = [{"list_name": "trees", "label": "${q}"}]
                    yield {"wb": wb, "meta": {"gen": "nsprefix", "col": f"{site.split('{')[0]}:decl{di}"}, "id": "data"}


def gen_mixdelim(tier):
    """the two documented grouped-header delimiters, one per sheet (each sheet is read in its own style)"""
    def hd(style, *parts):
        return (":" if style == 1 else "::").join(parts) if not (style == 1 and parts[0] == "media") else ":".join(parts[1:])

    for ss in (1, 2):
        for cs in (1, 2):
            for langs in (("English",), ("English", "French"), ("English (en)", "French (fr)")):
                for media in (False, True):
                    for sel in ("select_one c", "select_multiple c", "rank c"):
                        row = {"type": sel, "name": "s"}
                        chs = [{"list_name": "c", "name": "x"}, {"list_name": "c", "name": "y"}]
                        for L in langs:
                            row[hd(ss, "label", L)] = f"S {L}"
                            row[hd(ss, "hint", L)] = f"H {L}"
                            for i, c in enumerate(chs):
                                c[hd(cs, "label", L)] = f"C{i} {L}"
                                if media:
                                    c[hd(cs, "media", "image", L)] = f"c{i}.png"
                        if media:
                            row[hd(ss, "media", "image", langs[0])] = "s.png"
                        for fmt in (None, "md", "xlsx"):
                            c_ = {"wb": {"survey": [row], "choices": chs}, "meta": {"gen": "mixdelim", "col": f"survey{ss}-choices{cs}:{fmt or 'dict'}"}, "id": "data"}
                            if fmt:
                                c_["fmt"] = fmt
                            yield c_


def gen_choicenames(tier):
    """choice names and list names are free text: whatever is accepted lands in <name> / <itextId> / instance ids as text"""
    cnames = ["r&d", "<18", 'a"b', "x'y", "a>b", "&amp;", "]]>", "1", "\u00e9", "a-b.c", "&", "<", "x&y<z"]
    lnames = ["c", "q&a", "l<1", "x'y", "a>b", "\u00e9l"]
    for ln in lnames:
        for cn in cnames:
            for lab in ("plain", "lang", "media"):
                for sel in ("select_one", "select_multiple", "rank"):
                    ch = [{"list_name": ln, "name": cn}, {"list_name": ln, "name": "ok1"}]
                    for i, c in enumerate(ch):
                        if lab == "plain":
                            c["label"] = f"L{i}"
                        elif lab == "lang":
                            c["label::en"] = f"E{i}"
                            c["label::fr"] = f"F{i}"
                        else:
                            c["label"] = f"L{i}"
                            c["media::image"] = f"i{i}.png"
                    yield {"wb": {"survey": [{"type": f"{sel} {ln}", "name": "s", "label": "S"}], "choices": ch},
                           "meta": {"gen": "choicenames", "col": f"{lab}:{sel}"}, "id": "data"}


def gen_formnames(tier):
    """candidate names for the form itself and for loop-built groups (whatever is accepted must still be a well-formed document)"""
    from props.C17 import FORM_NAMES

    for nm in FORM_NAMES:
        for ch in ("settings-name", "form_name-arg", "loop-choice"):
            wb = {"survey": [{"type": "text", "name": "q", "label": "Q"}]}
            kw = {}
            if ch == "settings-name":
                wb["settings"] = [{"name": nm}]
            elif ch == "form_name-arg":
                kw["form_name"] = nm
            else:
                wb["survey"] += [{"type": "begin loop over t", "name": "lp", "label": "LP"}, {"type": "text", "name": "lq", "label": "LQ"}, {"type": "end loop"}]
                wb["choices"] = [{"list_name": "t", "name": nm, "label": "N"}, {"list_name": "t", "name": "ok1", "label": "O"}]
            meta = {"gen": "formnames", "col": ch}
            if nm.count(":") == 1 and not nm.startswith(":") and not nm.endswith(":"):
                meta["name_channel"] = f"{ch}-with-colon"  # the same acceptance of prefixed names as for question names
            yield {"wb": wb, "kw": kw, "meta": meta, "id": "data"}


# bad author-typed *names* (not text): each is its own known-finding channel
BAD_NAMES = [
    ("bind-badname", {"bind::a<b": "v"}, None, None),
    ("body-badname", {"body::a b": "v"}, None, None),
    ("inst-badname", {"instance::1x": "v"}, None, None),
    ("attr-badname", {}, {"attribute::1x": "v"}, None),
    ("ns-badprefix", {}, {"namespaces": '1a="http://a.example"'}, None),
    ("choice-col-badname", {}, None, "2col"),
    ("choice-col-lt", {}, None, "a<b"),
    ("choice-col-ok", {}, None, "extra_col"),
    ("ns-noquotes-noeq", {}, {"namespaces": "zz"}, None),
    ("ns-empty-uri", {}, {"namespaces": 'zz=""'}, None),
    ("bind-emptyname", {"bind::": "v"}, None, None),
    ("attr-xmlns", {}, {"attribute::xmlns:q": "http://q"}, None),
    ("bind-undeclared-prefix", {"bind::zz:foo": "v"}, None, None),
    ("inst-undeclared-prefix", {"instance::zz:a": "v"}, None, None),
    ("body-undeclared-prefix", {"body::zz:b": "v"}, None, None),
    ("attr-undeclared-prefix", {}, {"attribute::zz:x": "v"}, None),
    ("bind-esri-prefix", {"bind::esri:fieldType": "v"}, None, None),
]


def gen_names(tier):
    for tag, cols, st, ccol in BAD_NAMES:
        row = {"type": "select_one c", "name": "q", "label": "Q"}
        row.update(cols)
        ch = [dict(r) for r in cat.CHOICES]
        if ccol:
            ch[0][ccol] = "cx"
        wb = {"survey": [row], "choices": ch}
        if st:
            wb["settings"] = [dict(st)]
        yield {"wb": wb, "meta": {"gen": "names", "name_channel": tag}, "id": "data"}


# characters at the edges of the XML 1.0 (5th edition) NameStartChar / NameChar ranges, inside and just outside
EDGE_CHARS = ["\xb7", "\xbf", "\xc0", "\xd6", "\xd7", "\xd8", "\xf6", "\xf7", "\xf8", "\u02ff", "\u0300", "\u036f", "\u0370", "\u037d", "\u037e",
              "\u037f", "\u1fff", "\u2000", "\u200b", "\u200c", "\u200d", "\u200e", "\u203e", "\u203f", "\u2040", "\u2041", "\u206f", "\u2070",
              "\u218f", "\u2190", "\u2bff", "\u2c00", "\u2fef", "\u2ff0", "\u3000", "\u3001", "\ud7ff", "\uf8ff", "\uf900", "\ufdcf", "\ufdd0",
              "\ufdef", "\ufdf0", "\ufffd", "\U00010000", "\U000effff", "\U000f0000", "-", ".", "0", ":", "_"]


def gen_namechars(tier):
    """element names (question / group / extra choice column) containing a range-edge character, first or later in the name"""
    for c in EDGE_CHARS:
        for nm in (f"a{c}b", f"{c}ab", f"ab{c}"):
            yield {"wb": {"survey": [{"type": "text", "name": nm, "label": "Q"}]}, "meta": {"gen": "namechars", "ch": "question", "lenient": True, "name_channel": "question-name"}, "id": "data"}
            yield {"wb": {"survey": [{"type": "begin group", "name": nm, "label": "G"}, {"type": "text", "name": "q", "label": "Q"}, {"type": "end group"}]},
                   "meta": {"gen": "namechars", "ch": "group", "lenient": True, "name_channel": "group-name"}, "id": "data"}
            yield {"wb": {"survey": [{"type": "select_one c", "name": "q", "label": "Q"}], "choices": [{"list_name": "c", "name": "x", "label": "X", nm: "v"}]},
                   "meta": {"gen": "namechars", "ch": "choice-column", "lenient": True, "name_channel": "choice-col-badname"}, "id": "data"}


def gen_lists_cols(tier):
    """several choice lists x extra columns whose header is not an element name (dropped with a warning): the value may sit
    in the first list, a later list, or all of them"""
    for hdr in ("my col", "a b c", " x", "pop\u00a02020", "pop\t2020", "pop\n2020", "a  b", "x\u2003y", "pop\u00a0 2020", "a\r\nb"):  # any white space between words
        for nlists in (1, 2, 3):
            for mask in range(1, 1 << nlists):
                ch = []
                for li in range(nlists):
                    for ci in range(2):
                        r = {"list_name": f"l{li}", "name": f"n{ci}", "label": f"L{li}{ci}"}
                        if mask >> li & 1:
                            r[hdr] = f"v{li}{ci}"
                        ch.append(r)
                sv = [{"type": f"select_one l{li}", "name": f"s{li}", "label": "S"} for li in range(nlists)]
                yield {"wb": {"survey": sv, "choices": ch}, "meta": {"gen": "lists-cols", "ch": f"{nlists}"}, "id": "data"}


CHANNELS = ["label", "hint", "guidance_hint", "constraint_message", "required_message", "glabel",
            "clabel", "cextra", "default", "form_title", "version", "appearance", "attrval",
            "instval", "bindval", "instance_name", "label_lang"]


def text_form(channel, s):
    q = {"type": "select_one c", "name": "q", "label": "Q"}
    rows = [{"type": "text", "name": "t0", "label": "T0"}, {"type": "begin group", "name": "g", "label": "G"}, q, {"type": "end group"}]
    ch = [dict(r) for r in cat.CHOICES]
    st = {}
    if channel == "label":
        q["label"] = s
    elif channel == "label_lang":
        del q["label"]
        q["label::en"] = s
        q["label::fr"] = "F"
    elif channel in ("hint", "guidance_hint", "constraint_message", "required_message", "default", "appearance"):
        q[channel] = s
        if channel == "constraint_message":
            q["constraint"] = ". != 'k'"
        if channel == "required_message":
            q["required"] = "yes"
    elif channel == "glabel":
        rows[1]["label"] = s
    elif channel == "clabel":
        ch[0]["label"] = s
    elif channel == "cextra":
        ch[0]["extra"] = s
    elif channel == "form_title":
        st["form_title"] = s
    elif channel == "version":
        st["version"] = s
    elif channel == "attrval":
        st["attribute::av"] = s
    elif channel == "instance_name":
        st["instance_name"] = s
    elif channel == "instval":
        q["instance::iv"] = s
    elif channel == "bindval":
        q["bind::bv"] = s
    wb = {"survey": rows, "choices": ch}
    if st:
        wb["settings"] = [st]
    return wb


def gen_text(tier):
    n = 1 if tier == "quick" else 2
    for L in range(1, n + 1):
        for combo in itertools.product(FRAGS, repeat=L):
            s = "".join(combo)
            for chn in CHANNELS:
                for ref in (False, True):
                    if ref and chn in ("form_title", "version", "appearance", "attrval", "cextra"):
                        continue
                    txt = (s + " ${t0} " + s) if ref else s
                    yield {"wb": text_form(chn, txt), "meta": {"gen": "text", "ch": chn, "ref": ref}, "id": "data"}
    # characters that are not XML 1.0 Chars (C0 controls, U+FFFE/FFFF) and neighbours that are (DEL, NEL, tab, U+FFFD)
    for cp in (0x00, 0x01, 0x08, 0x0B, 0x0C, 0x1F, 0x7F, 0x85, 0x9F, 0xFFFD, 0xFFFE, 0xFFFF, 0x09):
        for chn in CHANNELS:
            meta = {"gen": "text", "ch": chn, "ref": False}
            if cp in (0x00, 0x01, 0x08, 0x0B, 0x0C, 0x1F, 0xFFFE, 0xFFFF):
                meta["name_channel"] = "illegal-xml-char"
            yield {"wb": text_form(chn, f"a{chr(cp)}b"), "meta": meta, "id": "data"}
    # cell text with line breaks / tabs next to quotes and markup characters (multi-line messages and labels)
    for s in ['a\n"b', '"\n', "'\n\"", "\n<", "x\ty\"z", "a\r\nb\"", "&\n\"<\">"]:
        for chn in CHANNELS:
            for ref in (False, True):
                if ref and chn in ("form_title", "version", "appearance", "attrval", "cextra"):
                    continue
                txt = (s + " ${t0} " + s) if ref else s
                yield {"wb": text_form(chn, txt), "meta": {"gen": "text", "ch": chn, "ref": ref}, "id": "data"}


LTYPES = [
    lambda i, nm: {"type": "text", "name": nm, "label": nm},
    lambda i, nm: {"type": "select_one c or_other", "name": nm, "label::en": nm, "label::fr": nm + "f"},
    lambda i, nm: {"type": "calculate", "name": nm, "calculation": "1+1"},
    lambda i, nm: {"type": "text", "name": nm, "label": nm + " ${a}", "default": "now()"},
    lambda i, nm: {"type": "image", "name": nm, "label": nm, "media::audio": "x.mp3"},
    lambda i, nm: {"type": "select_multiple c", "name": nm, "label": nm, "hint": "h", "guidance_hint": "g"},
]


def gen_layouts(tier):
    N = 4 if tier == "quick" else 5
    names = ["a", "b", "c", "d", "e"]
    for forest in forests_upto(N, 3):
        for rot in range(3):
            def qrow(i, nm, rot=rot):
                return LTYPES[(i + rot) % len(LTYPES)](i, nm)

            def crow(i, kind, nm, rot=rot):
                r = {"type": "begin group" if kind == "g" else "begin repeat", "name": nm, "label": nm}
                if kind == "r" and (i + rot) % 2 == 0:
                    r["repeat_count"] = "2 + 1"
                if kind == "g" and (i + rot) % 3 == 0:
                    r["appearance"] = "field-list"
                return r

            rows = rows_from_forest(forest, names, qrow, crow)
            yield {"wb": {"survey": rows, "choices": [dict(r) for r in cat.CHOICES]}, "meta": {"gen": "layout", "rot": rot}, "id": "data"}


def gen_containers(tier):
    labels = list(cat.TYPE_ROWS)
    if tier == "quick":
        labels = labels[::3]
    for label in labels:
        for fmt in ("md", "csv", "xlsx", "xls"):
            yield {"wb": cat.form_for(label, "group", _dec_lang), "fmt": fmt, "meta": {"gen": "container", "t": label, "fmt": fmt}, "id": "data"}


def gen_corpus(tier):
    """the frozen corpus of realistic workbooks (xmc/corpus.py), in both print modes; the form id is the settings' or the default"""
    from xmc import corpus

    for cid, name, wb in corpus.forms():
        fid = corpus.setting(wb, "form_id") or corpus.setting(wb, "id_string") or "data"
        yield {"wb": wb, "meta": {"gen": "corpus", "t": ""}, "id": fid, "corpus": cid}


SPACE = GenSpace(
    {"corpus": gen_corpus, "names": gen_names, "types": gen_types, "layouts": gen_layouts, "containers": gen_containers,
     "settings": gen_settings, "text": gen_text, "namechars": gen_namechars, "lists-cols": gen_lists_cols,
     "nsprefix": gen_nsprefix, "mixdelim": gen_mixdelim, "formnames": gen_formnames, "choicenames": gen_choicenames},
    chunk=250,
)
blocks = SPACE.blocks
expand = SPACE.expand


def required_outcomes(tier):
    return {"ok", "reject"}


# ---------------------------------------------------------------- oracle -------------


def skeleton_problems(xml, form_id):
    """list of (kind, detail); empty when the XForm text satisfies C01"""
    if not xml.startswith('<?xml version="1.0"?>'):
        return [("decl", xml[:40])]
    if xml.count("<?xml") != 1:
        return [("decl-count", str(xml.count("<?xml")))]
    try:
        root = O.parse(xml)
    except O.ParseFailure as e:
        msg = str(e)
        kind = "unbound-prefix" if "unbound prefix" in msg else "not-wellformed"
        return [(kind, msg)]
    pr = []
    if root.tag != O.H + "html":
        pr.append(("root", root.tag))
    kids = [c.tag for c in root]
    if kids != [O.H + "head", O.H + "body"]:
        pr.append(("root-children", str(kids)))
        return pr
    head = root[0]
    titles = [c for c in head if c.tag == O.H + "title"]
    models = [c for c in head if c.tag == O.X + "model"]
    if len(titles) != 1 or len(models) != 1 or len(head) != 2:
        pr.append(("head", str([c.tag for c in head])))
        return pr
    insts = [c for c in models[0] if c.tag == O.X + "instance"]
    if not insts:
        return [("no-instance", "")]
    first = insts[0]
    if first.get("id") is not None or first.get("src") is not None:
        pr.append(("first-instance-not-primary", str(first.attrib)))
    if len(first) != 1:
        pr.append(("primary-root-count", str(len(first))))
    elif first[0].get("id") != form_id:
        pr.append(("form-id", f"{first[0].get('id')!r} != {form_id!r}"))
    return pr


def check_one(case):
    from xmc import render

    meta = case["meta"]
    viol = []
    kinds = []
    for pretty in (False, True):
        if case.get("fmt"):
            src, kw = render.render(case["wb"], case["fmt"])
            out = run_convert(src, pretty_print=pretty, **kw)
        else:
            out = run_convert(case["wb"], pretty_print=pretty, **case.get("kw", {}))
        kinds.append(out.kind)
        if out.kind != "ok":
            continue
        pr = skeleton_problems(out.xform, case["id"])
        if pr and meta.get("lenient") and pr[0][0] == "not-wellformed":
            # expat applies the XML 1.0 4th-edition name rules, pyxform (like libxml2) the 5th edition's: a name
            # character is only held against the output when the 5th-edition parser refuses the document as well
            try:
                import lxml.etree as LE

                LE.fromstring(out.xform.encode("utf-8"))
                pr = []
            except LE.XMLSyntaxError:
                pass
        for kind, detail in pr:
            if meta.get("name_channel") and kind in ("unbound-prefix", "not-wellformed"):
                sig = f"name-channel:{meta['name_channel']}:{kind}"
            else:
                sig = f"{kind}:{meta['gen']}:{meta.get('ch') or meta.get('t') or meta.get('col') or ''}"
            viol.append((sig, f"pretty={pretty} {detail}"[:400]))
    if kinds[0] != kinds[1]:
        viol.append((f"outcome-differs-by-print-mode:{meta['gen']}", str(kinds)))
    outcome = kinds[0]
    rows = len(case["wb"].get("survey", ())) + len(case["wb"].get("choices", ()))
    return {"outcome": outcome, "nt": outcome == "ok", "viol": viol, "tr": 2 * rows}

# as-built additions of the seventh wave (reported with the bound in the evidence)
BOUND = {k: v + "; seventh wave: " + 'the frozen corpus of 501 realistic workbooks in both print modes; extra choices columns with any white space between the header words' for k, v in BOUND.items()}
