"""C05 - logic cells reach the right bind unchanged, with the type the table prescribes."""

import itertools
import re

from xmc import observe as O
from xmc.impl import run_convert
from xmc.pathmodel import Path, align, norm_ws
from xmc.ref.types import TYPES

ID = "C05"
LEVEL = "model_checking"
TECHNIQUE = "explicit-state small-scope exploration: question type x subset of logic columns x value alphabet x alias spelling x column order x context, executed on the implementation and compared with a reference bind model (own row and neighbours)"
CLAIM = ("For every question type of the reference table, every subset (bounded size) of the nine logic columns, every value of the "
         "alphabet, alias spellings and column orders, in top-level/group/repeat context, the real converter is run and the bind of "
         "the row under test and of both neighbours must equal the reference bind model exactly (no attribute dropped, duplicated or "
         "attached to another row; yes/no normalised only where prescribed; messages inline or via itext).")
RULE = (
    "case = (type, subset of 9 logic columns, value index (also rotates alias spelling and column order), context); "
    "non-trivial = accepted case with at least one logic column filled; distinct by canonical case hash"
)
ASSUMPTIONS = [
    "the reference type table and alias catalogue are frozen under /verif (reconciled once with the pinned tree)",
    "value alphabet of 8 strings; neighbours are one integer row before and one text row after the row under test",
]
BOUND = {
    "quick": "27 types x all subsets of size <=3 of 9 columns x 8 values (alias/order rotated with the value) x 3 contexts",
    "thorough": "27 types x all 512 subsets x 8 values x 2 alias spellings x 3 contexts (order rotated)",
}
# as-built additions to the bound (kept next to BOUND so that the evidence reports them)
BOUND = {k: v + "; plus: " + '14 legacy spellings of the metadata types with their preload pairs; legacy loops over 1-3 choices: %(name)s / %(label)s placeholders in subsets <=3 (thorough <=4) of 7 logic cells, filled in per copy; selects inside a table-list group (row under test first / second; generated helper nodes carry no row logic); 11 columns (noAppErrorString and a constraint_message::fr language column added); 6 further range / image / geopoint parameter spellings' for k, v in BOUND.items()}

NSP = {"jr": O.JR, "odk": O.ODK, "orx": O.ORX}


def qn(name):
    if ":" in name:
        p, loc = name.split(":")
        return "{%s}%s" % (NSP[p], loc)
    return name


TYPE_CELLS = ["text", "integer", "decimal", "date", "time", "dateTime", "note", "select_one c", "select_multiple c",
              "rank c", "geopoint", "geotrace", "image", "audio", "file", "barcode", "calculate", "hidden",
              "acknowledge", "range", "start", "end", "today", "deviceid", "username", "email", "phonenumber",
              "background-audio", "begin group", "begin repeat"]
CONTAINER_COLS = {"relevant", "read_only", "required", "custom"}  # logic cells that make sense on a group / repeat row
PARAM = {"image": ("max-pixels=640", {"orx:max-pixels": "640"}), "audio": ("quality=low", {"odk:quality": "low"}),
         "geopoint": ("allow-mock-accuracy=true", {"odk:allow-mock-accuracy": "true"}),
         "range": ("start=0.5 end=2 step=0.5", {"type": "decimal"}),
         "background-audio": ("quality=low", {})}  # the quality of a background recording belongs to its action, not its bind
# further parameter spellings per type (index 0 is PARAM[type]): decimal anywhere among start/end/step makes a range decimal
PARAM_MORE = {"range": [("start=0.5 end=9.5 step=1", {"type": "decimal"}), ("step=0.5", {"type": "decimal"}), ("start=1 end=5 step=1", {}),
                        ("end=2.5", {"type": "decimal"}), ("start=1.5 end=5", {"type": "decimal"}), ("step=2 start=0.5", {"type": "decimal"})],
              "image": [("max-pixels=320 app=com.ex.a", {"orx:max-pixels": "320"})],
              "geopoint": [("capture-accuracy=5 warning-accuracy=9", {})]}


def param_of(base, pv):
    return PARAM[base] if not pv else PARAM_MORE[base][pv - 1]
# column id -> [(header spelling, bind attribute)]
COLS = {
    "relevant": [("relevant", "relevant"), ("relevance", "relevant")],
    "required": [("required", "required"), ("Required", "required")],
    "read_only": [("read_only", "readonly"), ("readonly", "readonly")],
    "constraint": [("constraint", "constraint"), ("Constraint", "constraint")],
    "calculation": [("calculation", "calculate"), ("calculate", "calculate")],
    "constraint_message": [("constraint_message", "jr:constraintMsg"), ("constraining_message", "jr:constraintMsg")],
    "required_message": [("required_message", "jr:requiredMsg"), ("requiredmsg", "jr:requiredMsg")],
    "custom": [("bind::foo", "foo"), ("bind::jr:bar", "jr:bar")],
    # a message that is never itext unless translated, also when it holds a reference
    "noapp": [("noAppErrorString", "jr:noAppErrorString"), ("bind::jr:noAppErrorString", "jr:noAppErrorString")],
    # a language column of a message, standing left or right of its unsuffixed twin (column order is rotated)
    "cmsg_fr": [("constraint_message::fr", "jr:constraintMsg"), ("constraint_message::fr", "jr:constraintMsg")],
    "param": [("parameters", None), ("parameters", None)],
}
KEYS = list(COLS)
VALS = ["yes", "Yes", "TRUE", "no", "true()", ". > 0", "${o} = 1", "'yes'"]
CONV = {"yes": "true()", "Yes": "true()", "YES": "true()", "true": "true()", "True": "true()", "TRUE": "true()",
        "no": "false()", "No": "false()", "NO": "false()", "false": "false()", "False": "false()", "FALSE": "false()"}
CONVERTIBLE = {"readonly", "required", "relevant", "constraint", "calculate"}
CHOICES = [{"list_name": "c", "name": "x", "label": "X"}, {"list_name": "c", "name": "y", "label": "Y"}]


# ---- legacy loops: every child row is copied once per choice, its %(name)s / %(label)s placeholders filled in per copy
LOOP_CELLS = {
    "relevant": ("${o} = '%(name)s'", "relevant", "{o} = '{name}'"),
    "constraint": (". != '%(label)s'", "constraint", ". != '{label}'"),
    "calculation": ("concat('%(name)s', ${o})", "calculate", "concat('{name}', {o})"),
    "constraint_message": ("msg %(name)s", "jr:constraintMsg", "msg {name}"),
    "required": ("'%(name)s' = 'x'", "required", "'{name}' = 'x'"),
    "bind::foo": ("%(name)s-z", "foo", "{name}-z"),
    "read_only": ("yes", "readonly", "true()"),
}
LOOP_LISTS = [[("x", "X"), ("y", "Y")], [("x", "X"), ("y", "Y"), ("z9", "Z 9")], [("only", "Only")]]


def gen_loop(tier):
    keys = list(LOOP_CELLS)
    for li in range(len(LOOP_LISTS)):
        for r in (1, 2, 3) if tier == "quick" else (1, 2, 3, 4):
            for sub in itertools.combinations(keys, r):
                for second in (False, True):
                    yield {"loop": {"list": li, "cols": list(sub), "second": second}, "ty": 0, "ctx": "loop", "cols": list(sub), "v": 0, "a": 0, "o": 0}


def check_loop(case):
    lp = case["loop"]
    choices = [{"list_name": "c", "name": n, "label": l} for n, l in LOOP_LISTS[lp["list"]]]
    row = {"type": "text", "name": "t", "label": "T"}
    for c in lp["cols"]:
        row[c] = LOOP_CELLS[c][0]
    other = {"type": "integer", "name": "u", "label": "U", "relevant": "'%(name)s' != ''"}
    body = [row, other] if not lp["second"] else [other, row]
    wb = {"survey": [{"type": "integer", "name": "o", "label": "O"}, {"type": "begin loop over c", "name": "w", "label": "W"}, *body, {"type": "end loop"}], "choices": choices}
    out = run_convert(wb)
    if out.kind != "ok":
        return {"outcome": out.kind, "nt": False, "viol": [], "tr": 5, "unexp": out.kind == "reject", "why": (out.msg or "")[:200]}
    obs = O.Obs(out.xform)
    bm = obs.bind_map()
    viol = []
    for n, l in LOOP_LISTS[lp["list"]]:
        exp = {"type": "string"}
        for c in lp["cols"]:
            _, attr, tmpl = LOOP_CELLS[c]
            exp[attr] = tmpl.format(o="/data/o", name=n, label=l)
        for who, name, want in (("own", "t", exp), ("sibling", "u", {"type": "int", "relevant": f"'{n}' != ''"})):
            bs = bm.get(f"/data/w/{n}/{name}", [])
            if len(bs) != 1:
                viol.append((f"loop-copy-bind-count:{who}", f"/data/w/{n}/{name}: {len(bs)} binds"))
                continue
            sq = lambda v: norm_ws(v).replace(" )", ")").replace("( ", "(")  # noqa: E731 - spaces around a substituted path
            got = {O.local(k) if k.startswith("{") else k: sq(v) for k, v in bs[0].attrib.items() if k != "nodeset"}
            wantq = {k.split(":")[-1]: sq(v) for k, v in want.items()}
            if got != wantq:
                viol.append((f"loop-copy-bind:{who}:{'+'.join(sorted(k for k in set(got) | set(wantq) if got.get(k) != wantq.get(k)))}", f"copy for choice {n!r}: got {got} want {wantq}"))
    return {"outcome": "ok", "nt": not viol, "viol": viol[:3], "tr": 5}


# ---- legacy spellings of the metadata (preload) types: same preload pair as the modern name, plus the row's own logic cells
LEGACY_PRELOAD = {
    "start time": ("dateTime", "timestamp", "start"), "get start time": ("dateTime", "timestamp", "start"),
    "end time": ("dateTime", "timestamp", "end"), "get end time": ("dateTime", "timestamp", "end"),
    "get today": ("date", "date", "today"), "device id": ("string", "property", "deviceid"), "get device id": ("string", "property", "deviceid"),
    "subscriber id": ("string", "property", "subscriberid"), "get subscriber id": ("string", "property", "subscriberid"),
    "sim id": ("string", "property", "simserial"), "get sim id": ("string", "property", "simserial"),
    "get phone number": ("string", "property", "phonenumber"),
    "uri:deviceid": ("string", "property", "uri:deviceid"), "uri:username": ("string", "property", "uri:username"),
}


def gen_legacy(tier):
    for ty in LEGACY_PRELOAD:
        for rel in (False, True):
            for ctx in ("top", "group", "repeat"):
                yield {"legacy": ty, "rel": rel, "ty": 0, "ctx": ctx, "cols": [], "v": 0, "a": 0, "o": 0}


def check_legacy(case):
    ty = case["legacy"]
    row = {"type": ty, "name": "t"}
    if case["rel"]:
        row["relevant"] = "${o} = 1"
    rows = [{"type": "integer", "name": "o", "label": "O"}, row]
    base = "/data"
    if case["ctx"] != "top":
        rows = [{"type": f"begin {case['ctx']}", "name": "w", "label": "W"}, *rows, {"type": f"end {case['ctx']}"}]
        base = "/data/w"
    out = run_convert({"survey": rows})
    if out.kind != "ok":
        return {"outcome": out.kind, "nt": False, "viol": [], "tr": 3, "unexp": out.kind == "reject", "why": (out.msg or "")[:200]}
    obs = O.Obs(out.xform)
    bs = obs.bind_map().get(f"{base}/t", [])
    viol = []
    bt, pre, par = LEGACY_PRELOAD[ty]
    if len(bs) != 1:
        viol.append(("bind-count:own", f"{len(bs)} binds for {base}/t ({ty})"))
    else:
        got = {O.local(k) if k.startswith("{") else k: v for k, v in bs[0].attrib.items() if k != "nodeset"}
        want = {"type": bt, "preload": pre, "preloadParams": par}
        if case["rel"]:
            want["relevant"] = "../o = 1" if case["ctx"] == "repeat" else f"{base}/o = 1"
        got = {k: norm_ws(v) for k, v in got.items()}
        if got != want:
            viol.append((f"legacy-preload-bind:{'+'.join(sorted(k for k in set(got) | set(want) if got.get(k) != want.get(k)))}", f"{ty}: got {got} want {want}"))
    return {"outcome": "ok", "nt": not viol, "viol": viol, "tr": 3}


def blocks(tier):
    yield ("loop",)
    yield ("legacy",)
    for ti in range(len(TYPE_CELLS)):
        for ctx in ("top", "group", "repeat"):
            yield (ti, ctx)
        if TYPE_CELLS[ti] in ("select_one c", "select_multiple c"):
            # a table-list group: the rows around the one under test are selects on the same list; the two generated
            # helper nodes (group label note, list header select) are not survey rows and carry no logic of any row
            yield (ti, "tablelist")
            yield (ti, "tablelist-first")


def expand(block, tier):
    if block[0] == "loop":
        yield from gen_loop(tier)
        return
    if block[0] == "legacy":
        yield from gen_legacy(tier)
        return
    ti, ctx = block
    kmax = 3 if tier == "quick" else len(KEYS)
    ty = TYPE_CELLS[ti]
    for r in range(0, kmax + 1):
        for sub in itertools.combinations(KEYS, r):
            if "param" in sub and ty.split()[0] not in PARAM:
                continue
            if ty.startswith("begin") and not set(sub) <= CONTAINER_COLS:
                continue
            if ty == "background-audio" and set(sub) & {"constraint", "constraint_message", "cmsg_fr", "required_message", "noapp", "calculation"}:
                continue
            for vi in range(len(VALS)):
                ais = (vi % 2,) if tier == "quick" else (0, 1)
                for ai in ais:
                    yield {"ty": ti, "ctx": ctx, "cols": list(sub), "v": vi, "a": ai, "o": (vi + ai) % (r + 2)}
            if "param" in sub and r <= 2 and ty.split()[0] in PARAM_MORE:
                for pv in range(1, len(PARAM_MORE[ty.split()[0]]) + 1):
                    for vi in (0, 5):
                        yield {"ty": ti, "ctx": ctx, "cols": list(sub), "v": vi, "a": 0, "o": vi % (r + 2), "pv": pv}


def required_outcomes(tier):
    return {"ok"}


def build(case):
    ty = TYPE_CELLS[case["ty"]]
    base = ty.split()[0]
    cells = []  # (header, value, attr, column id)
    val = VALS[case["v"]]
    for c in case["cols"]:
        hdr, attr = COLS[c][case["a"]]
        if c == "param":
            cells.append((hdr, param_of(base, case.get("pv"))[0], None, c))
        elif c in ("constraint_message", "required_message", "noapp"):
            cells.append((hdr, "msg " + val, attr, c))
        elif c == "cmsg_fr":
            cells.append((hdr, "msgfr", attr, c))
        else:
            cells.append((hdr, val, attr, c))
    if base == "calculate" and "calculation" not in case["cols"]:
        cells.append(("calculation", "1 + 1", "calculate", "calculation"))
    # column order: rotation o of the filled columns, reversal when o is the last index
    o = case["o"]
    if cells:
        if o == len(case["cols"]) + 1:
            cells = cells[::-1]
        else:
            k = o % len(cells)
            cells = cells[k:] + cells[:k]
    row = {"type": ty, "name": "t", "label": "T"}
    lead = {}
    for hdr, v, _, _ in cells:
        lead[hdr] = v
    row = {**lead, **row} if o % 2 else {**row, **lead}
    other = {"type": "integer", "name": "o", "label": "O", "relevant": "1=1"}
    after = {"type": "text", "name": "n2", "label": "N2", "constraint": ". != 'z'", "constraint_message": "cm2"}
    # the neighbours use the same spelling of shared headers as the row under test
    for hdr, v, attr, c in cells:
        if c == "relevant" and hdr != "relevant":
            other[hdr] = other.pop("relevant")
        if c == "constraint" and hdr != "constraint":
            after[hdr] = after.pop("constraint")
        if c == "constraint_message" and hdr != "constraint_message":
            after[hdr] = after.pop("constraint_message")
    ctx = case["ctx"]
    mid = [row]
    if ty.startswith("begin"):
        mid = [row, {"type": "text", "name": "inner", "label": "I"}, {"type": "end " + ty.split()[1]}]
    elif ty == "background-audio":
        row.pop("label", None)
    if ctx.startswith("tablelist"):
        other.update(type="select_one c")
        after.update(type="select_one c")
        body = [*mid, other, after] if ctx.endswith("first") else [other, *mid, after]
        rows = [{"type": "begin group", "name": "w", "label": "W", "appearance": "table-list"}, *body, {"type": "end group"}]
    elif ctx == "top":
        rows = [other, *mid, after]
    else:
        kind = "group" if ctx == "group" else "repeat"
        rows = [{"type": f"begin {kind}", "name": "w", "label": "W"}, other, *mid, after, {"type": f"end {kind}"}]
    return {"survey": rows, "choices": [dict(c) for c in CHOICES]}, cells


def expected_bind(case, cells):
    ty = TYPE_CELLS[case["ty"]]
    base = ty.split()[0]
    if ty.startswith("begin"):
        e = {}
    elif base == "background-audio":
        e = {"type": "binary"}
    elif base in ("select_one", "select_multiple"):
        e = {"type": "string"}
    elif base == "rank":
        e = {"type": "odk:rank"}
    else:
        t = TYPES[base]
        e = {"type": t["btype"], **t["bind"]}
        if t["preload"]:
            e["jr:preload"] = t["preload"]
            e["jr:preloadParams"] = t["params"]
    for hdr, v, attr, c in cells:
        if c == "param":
            e.update(param_of(base, case.get("pv"))[1])
        elif c == "cmsg_fr":
            pass
        else:
            e[attr] = CONV.get(v, v) if attr in CONVERTIBLE else v
    if any(c == "cmsg_fr" for _, _, _, c in cells):
        plain = next((v for _, v, _, c in cells if c == "constraint_message"), None)
        e["jr:constraintMsg"] = ("ITEXT", {"fr": "msgfr", "default": plain})
    return e


def check_one(case):
    if case.get("loop"):
        return check_loop(case)
    if case.get("legacy"):
        return check_legacy(case)
    wb, cells = build(case)
    out = run_convert(wb)
    ntr = len(wb["survey"])
    if out.kind == "crash":
        return {"outcome": "crash", "nt": False, "viol": [], "tr": ntr}
    if out.kind == "reject":
        return {"outcome": "reject", "nt": False, "viol": [], "tr": ntr, "unexp": True, "why": out.msg[:200]}
    obs = O.Obs(out.xform)
    base = "/data" if case["ctx"] == "top" else "/data/w"
    ctxpath = base.strip("/").split("/")
    bm = obs.bind_map()
    viol = []
    tyname = TYPE_CELLS[case["ty"]].split()[0]
    itx = {}
    itl = {}
    for lang, d, texts in obs.itext:
        for tid, vals in texts:
            itx.setdefault(tid, []).append(vals)
            itl.setdefault(tid, {})[lang] = vals

    def compare(name, exp, who):
        bs = bm.get(f"{base}/{name}", [])
        if not exp and who == "own":
            # a group / repeat row without logic cells gets no bind at all
            if bs:
                viol.append(("container-without-logic-has-bind", str([dict(b.attrib) for b in bs])))
            return
        if len(bs) != 1:
            viol.append((f"bind-count:{who}", f"{len(bs)} binds for {base}/{name}"))
            return
        got = {k: v for k, v in bs[0].attrib.items() if k != "nodeset"}
        expq = {qn(k): v for k, v in exp.items()}
        for k in sorted(set(got) | set(expq)):
            g, w = got.get(k), expq.get(k)
            lk = O.local(k)
            if g is None:
                viol.append((f"bind-attribute-dropped:{who}:{lk}:{tyname if who == 'own' and lk in ('type', 'preload', 'preloadParams') else ''}", f"want {k}={w!r} got {got}"))
            elif w is None:
                viol.append((f"bind-attribute-unexpected:{who}:{lk}", f"{k}={g!r} cols={case['cols']}"))
            elif isinstance(w, tuple):
                # translated message: itext reference, one entry per language with exactly the text written for it
                tid = f"{base}/{name}:jr:{lk}"
                if g != f"jr:itext('{tid}')":
                    viol.append((f"translated-message-not-itext:{who}:{lk}", f"{g!r}"))
                else:
                    for lang, text in w[1].items():
                        vals = itl.get(tid, {}).get(lang)
                        shown = None if vals is None else next((norm_ws(O.flat_text(el)) for form, el in vals if form is None), None)
                        if text is None:
                            if lang in {lg for lg, _, _ in obs.itext} and shown not in (None, "-"):
                                viol.append((f"translated-message-text:{who}:{lk}", f"{lang}: shown {shown!r}, nothing was written"))
                        else:
                            want_t = norm_ws(text)
                            okt = shown is not None and (shown == want_t or ("${" in text and shown.startswith("msg ")))
                            if not okt:
                                viol.append((f"translated-message-text:{who}:{lk}", f"{lang}: shown {shown!r} want {want_t!r}"))
            elif "${" in w:
                if lk in ("constraintMsg", "requiredMsg"):
                    ref = f"jr:itext('{base}/{name}:jr:{lk}')"
                    if g != ref:
                        viol.append((f"message-not-itext:{who}:{lk}", f"{g!r}"))
                    else:
                        ents = itx.get(f"{base}/{name}:jr:{lk}", [])
                        shown = [next((norm_ws(O.flat_text(el)) for form, el in vals if form is None), None) for vals in ents]
                        # written once (unsuffixed): that text in one language, the explicit placeholder in any other
                        ok = bool(ents) and sum(1 for t in shown if t and t.startswith("msg ")) == 1 and all(t == "-" or (t and t.startswith("msg ")) for t in shown)
                        if not ok:
                            viol.append((f"message-itext-entry:{who}:{lk}", str(len(ents))))
                else:
                    subs = align(w, g)
                    okp = subs is not None
                    if okp:
                        for raw in subs:
                            p = Path(raw)
                            if not p.ok or p.resolve([*ctxpath, name]) != [*ctxpath, "o"]:
                                okp = False
                    if not okp:
                        viol.append((f"bind-attribute-value:{who}:{lk}", f"got {g!r} want {w!r}"))
            elif norm_ws(g) != norm_ws(w):
                viol.append((f"bind-attribute-value:{who}:{lk}", f"got {g!r} want {w!r} type={tyname}"))

    compare("t", expected_bind(case, cells), "own")
    if tyname == "background-audio":
        # the recording action carries its own parameters and none of the row's logic cells
        acts = [el for el in obs.model if O.local(el.tag) == "recordaudio" and el.get("ref") == f"{base}/t"]
        want_a = {"ref", "event"} | ({qn("odk:quality")} if "param" in case["cols"] else set())
        if len(acts) != 1 or set(acts[0].attrib) != want_a:
            viol.append(("background-audio-action-attributes", f"{[dict(a.attrib) for a in acts]} want keys {sorted(want_a)}"))
    compare("o", {"type": "string" if case["ctx"].startswith("tablelist") else "int", "relevant": "1=1"}, "before")
    compare("n2", {"type": "string", "constraint": ". != 'z'", "jr:constraintMsg": "cm2"}, "after")
    # binds of nodes that are no survey row (generated helpers): nothing but their own type / readonly
    rowpaths = {f"{base}/t", f"{base}/o", f"{base}/n2", f"{base}/t/inner", "/data/w", "/data/meta/instanceID"}
    for ns_, bs in bm.items():
        if ns_ in rowpaths:
            continue
        for b in bs:
            extra = {O.local(k) for k in b.attrib} - {"nodeset", "type", "readonly"}
            if extra or (b.get("readonly") not in (None, "true()")):
                viol.append((f"generated-node-carries-row-logic:{'+'.join(sorted(extra)) or 'readonly'}", f"{dict(b.attrib)}"))
    if case["ctx"] != "top" and bm.get("/data/w"):
        viol.append(("group-without-logic-has-bind", str([dict(b.attrib) for b in bm["/data/w"]])))
    return {"outcome": "ok", "nt": bool(case["cols"]) and not viol, "viol": viol, "tr": ntr}
