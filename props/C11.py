"""C11 - settings reach the form header verbatim; defaults apply; no setting leaks."""

import itertools
import os
import tempfile

from xmc import observe as O
from xmc import render
from xmc.impl import run_convert

ID = "C11"
LEVEL = "model_checking"
TECHNIQUE = "explicit-state small-scope exploration: every subset (bounded size) of the settings columns x marker values x alias spellings x argument/path configurations executed on the implementation and compared with a reference header mapping incl. non-leakage"
CLAIM = ("Every subset of the 17 settings up to the bound, with two distinguishable marker values, every alias spelling, with and "
         "without the form_name/default_language arguments and for path vs in-memory input, is converted by the real code; the "
         "header of the parsed XForm must equal the reference mapping and every marker value must occur exactly at its mapped places.")
RULE = (
    "case = (subset of settings, value index, alias spelling vector, form_name arg?, default_language arg?, path input?); "
    "non-trivial = accepted case with at least one setting present whose placement and non-leakage were checked; "
    "distinct by canonical case hash"
)
ASSUMPTIONS = [
    "two marker values per setting (each with one XML metacharacter where the slot allows it)",
    "path input is exercised through a Markdown file with stem 'stemX' (container equivalence is C12's job)",
]
BOUND = {
    "quick": "all subsets of size <=3 of 17 settings x 2 marker values x all 8 argument/path configurations; all alias spellings for subsets <=1",
    "thorough": "all subsets of size <=5 x 2 values x all 8 configurations; alias spellings for subsets <=2",
}
# as-built additions to the bound (kept next to BOUND so that the evidence reports them)
BOUND = {k: v + "; plus: " + 'every setting under 5 header spellings (Capitalised, UPPER, spaced, Title) alone and next to form_id' for k, v in BOUND.items()}

S = {
    "form_title": ["Ti<tle &1", "Other 'title' 2"],
    "form_id": ["fid&1", "form_two"],
    "version": ["v<1>", "2024021501"],
    "name": ["rootA", "root_b"],
    "instance_name": ["concat('in1', 'x')", "'in2'"],
    "submission_url": ["https://s1.example/x?a=1&b=2", "http://s2.example/"],
    "public_key": ["PK1<abc>", "PK2=="],
    "auto_send": ["true", "false"],
    "auto_delete": ["false", "true"],
    "style": ["pages theme1", "theme-grid"],
    "namespaces": ['nsa="http://nsa.example/1"', 'nsb="http://nsb.example/2" nsc=http://nsc.example/3'],
    "attribute::cattr": ["cv&1", "cv2"],
    # custom root attributes named like the standard ones never displace the form id / version
    "attribute::id": ["custom-id-1", "custom-id-2"],
    "attribute::version": ["custom-version-1", "custom-version-2"],
    "instance_xmlns": ["http://ix.example/1", "http://ix.example/2"],
    "omit_instanceID": ["true", "yes"],
    "prefix": ["PX1", "px<2"],
    "delimiter": ["|", "&"],
    "default_language": ["en", "fr"],
}
KEYS = list(S)
ALIASES = {"form_title": ["title", "set_form_title"], "form_id": ["id_string", "set_form_id"]}
CONFIGS = list(itertools.product((False, True), repeat=3))  # form_name arg, default_language arg, path


def gen(tier):
    k = 3 if tier == "quick" else 5
    n = 0
    for r in range(0, k + 1):
        for sub in itertools.combinations(KEYS, r):
            for v in (0, 1):
                for cfg in CONFIGS:
                    yield {"set": {kk: S[kk][v] for kk in sub}, "sp": {}, "cfg": list(cfg)}
    # alias spellings
    ak = 1 if tier == "quick" else 2
    for r in range(1, ak + 1):
        for sub in itertools.combinations(KEYS, r):
            al = [kk for kk in sub if kk in ALIASES]
            if not al:
                continue
            for choice in itertools.product(*[ALIASES[kk] for kk in al]):
                for v in (0, 1):
                    for cfg in (CONFIGS[0], CONFIGS[7]):
                        yield {"set": {kk: S[kk][v] for kk in sub}, "sp": dict(zip(al, choice)), "cfg": list(cfg)}
    # header case and spacing: every setting under Capitalised / UPPER / spaced spellings of its column header
    for kk in KEYS:
        if "::" in kk:
            continue
        spell = {kk.capitalize(), kk.upper(), kk.replace("_", " "), kk.title(), kk.replace("_", " ").title()} - {kk}
        for sp in sorted(spell):
            for v in (0, 1):
                for cfg in (CONFIGS[0], CONFIGS[7]):
                    yield {"set": {kk: S[kk][v]}, "sp": {kk: sp}, "cfg": list(cfg)}
                    if kk != "form_id":
                        yield {"set": {kk: S[kk][v], "form_id": S["form_id"][v]}, "sp": {kk: sp}, "cfg": list(cfg)}
    # both id spellings present: form_id wins, with a warning
    for v in (0, 1):
        yield {"set": {"form_id": S["form_id"][v]}, "sp": {}, "cfg": [False, False, False], "both_ids": "idstring_loser"}


from xmc.spaces import GenSpace  # noqa: E402

SPACE = GenSpace({"settings": gen}, chunk=300)
blocks = SPACE.blocks
expand = SPACE.expand


def required_outcomes(tier):
    return {"ok", "reject-expected"}


def build(case):
    st = {}
    for k, v in case["set"].items():
        st[case["sp"].get(k, k)] = v
    if case.get("both_ids"):
        st["id_string"] = case["both_ids"]
    rows = [{"type": "text", "name": "q", "label::en": "Qen", "label::fr": "Qfr"}]
    wb = {"survey": rows}
    if st:
        wb["settings"] = [st]
    if case.get("both_ids"):
        # as every spreadsheet backend does, name the header row explicitly
        wb["settings_header"] = [{k: None for k in st}]
    return wb


def expected(case):
    s = case["set"]
    fn_arg, dl_arg, path = case["cfg"]
    e = {}
    e["id"] = s.get("form_id", "stemX" if path else "data")
    e["title"] = s.get("form_title", e["id"])
    e["root"] = s.get("name", "argname" if fn_arg else "data")
    e["version"] = s.get("version", s.get("attribute::version"))  # a custom attribute only fills the place when the setting is absent
    e["instance_name"] = s.get("instance_name")
    sub = {}
    if "submission_url" in s:
        sub["action"] = s["submission_url"]
        sub["method"] = "post"
    if "public_key" in s:
        sub["base64RsaPublicKey"] = s["public_key"]
    if "auto_send" in s:
        sub["{%s}auto-send" % O.ORX] = s["auto_send"]
    if "auto_delete" in s:
        sub["{%s}auto-delete" % O.ORX] = s["auto_delete"]
    e["submission"] = sub or None
    e["class"] = s.get("style")
    ns = {}
    for tok in s.get("namespaces", "").split():
        p, u = tok.split("=")
        ns[p] = u.strip('"')
    e["ns"] = ns
    e["attr"] = s.get("attribute::cattr")
    e["ixmlns"] = s.get("instance_xmlns")
    e["omit"] = "omit_instanceID" in s
    e["prefix"] = s.get("prefix")
    e["delimiter"] = s.get("delimiter")
    e["deflang"] = s.get("default_language", "fr" if dl_arg else None)
    e["reject"] = e["omit"] and "public_key" in s
    return e


_TMP = None


def tmpdir():
    global _TMP
    if _TMP is None or not os.path.isdir(_TMP):
        _TMP = tempfile.mkdtemp(prefix="c11-", dir="/dev/shm" if os.path.isdir("/dev/shm") else None)
        import atexit
        import shutil

        atexit.register(shutil.rmtree, _TMP, True)
    return _TMP


def strings_of(root):
    out = []
    for el in root.iter():
        if el.text and el.text.strip():
            out.append(("text", O.local(el.tag), el.text))
        for k, v in el.attrib.items():
            out.append(("attr", O.local(el.tag) + "/@" + O.local(k), v))
    return out


def check_one(case):
    wb = build(case)
    e = expected(case)
    fn_arg, dl_arg, path = case["cfg"]
    kw = {}
    if fn_arg:
        kw["form_name"] = "argname"
    if dl_arg:
        kw["default_language"] = "fr"
    if path:
        p = os.path.join(tmpdir(), "stemX.md")
        with open(p, "w", encoding="utf-8") as f:
            f.write(render.to_md(wb))
        out = run_convert(p, **kw)
        os.unlink(p)
    else:
        out = run_convert(wb, **kw)
    ntr = 1 + len(case["set"])
    if out.kind == "crash":
        return {"outcome": "crash", "nt": False, "viol": [(f"crash:{out.exc}:{out.where}", out.msg)], "tr": ntr}
    if out.kind == "reject":
        if e["reject"]:
            return {"outcome": "reject-expected", "nt": True, "viol": [], "tr": ntr}
        return {"outcome": "reject", "nt": False, "viol": [(f"valid-settings-rejected:{'+'.join(sorted(case['set']))[:60]}", out.msg[:200])], "tr": ntr}
    viol = []
    if e["reject"]:
        viol.append(("omit_instanceID-with-public_key-accepted", ""))
        return {"outcome": "ok", "nt": False, "viol": viol, "tr": ntr}
    obs = O.Obs(out.xform)

    def bad(kind, got, want):
        viol.append((f"{kind}", f"got {got!r} want {want!r} settings={sorted(case['set'])} sp={case['sp']} cfg={case['cfg']}"))

    title = obs.head.find(O.H + "title")
    if (title.text or "") != e["title"]:
        bad("title", title.text, e["title"])
    prim = obs.primary
    if O.local(prim.tag) != e["root"]:
        bad("root-name", O.local(prim.tag), e["root"])
    if prim.get("id") != e["id"]:
        bad("id", prim.get("id"), e["id"])
    if prim.get("version") != e["version"]:
        bad("version", prim.get("version"), e["version"])
    if (O.ns(prim.tag) or None) != (e["ixmlns"] or O.XF):
        bad("instance_xmlns", O.ns(prim.tag), e["ixmlns"])
    if prim.get("cattr") != e["attr"]:
        bad("attribute", prim.get("cattr"), e["attr"])
    if prim.get("{%s}prefix" % O.ODK) != e["prefix"]:
        bad("prefix", prim.get("{%s}prefix" % O.ODK), e["prefix"])
    if prim.get("{%s}delimiter" % O.ODK) != e["delimiter"]:
        bad("delimiter", prim.get("{%s}delimiter" % O.ODK), e["delimiter"])
    allowed_attrs = {"id", "version", "cattr", "{%s}prefix" % O.ODK, "{%s}delimiter" % O.ODK}
    extra = set(prim.attrib) - allowed_attrs
    if extra:
        bad("unexpected-root-attribute", sorted(extra), [])
    # every path starts at the root name
    rootp = "/" + e["root"]
    for b in obs.binds():
        if not (b.get("nodeset", "").startswith(rootp + "/")):
            bad("bind-path-root", b.get("nodeset"), rootp)
    # meta
    nsx = "{%s}" % (e["ixmlns"] or O.XF)
    meta = prim.find(nsx + "meta")
    names = [O.local(c.tag) for c in meta] if meta is not None else []
    want_meta = ([] if e["omit"] else ["instanceID"]) + (["instanceName"] if e["instance_name"] else [])
    if names != want_meta:
        bad("meta-children", names, want_meta)
    bm = obs.bind_map()
    inb = bm.get(rootp + "/meta/instanceName", [None])[0]
    if e["instance_name"]:
        if inb is None or inb.get("calculate") != e["instance_name"]:
            bad("instanceName-calculate", inb.get("calculate") if inb is not None else None, e["instance_name"])
    elif inb is not None:
        bad("instanceName-bind-without-setting", inb.attrib, None)
    # submission
    subs = obs.model.findall(O.X + "submission")
    if e["submission"] is None:
        if subs:
            bad("submission-present", [x.attrib for x in subs], None)
    elif len(subs) != 1 or dict(subs[0].attrib) != e["submission"]:
        bad("submission", [dict(x.attrib) for x in subs], e["submission"])
    if obs.body.get("class") != e["class"]:
        bad("style", obs.body.get("class"), e["class"])
    nm = O.nsmap_of(out.xform)
    for p, u in e["ns"].items():
        if nm.get(p) != u:
            bad("namespace", nm.get(p), u)
    builtin = {"", "h", "ev", "xsd", "jr", "orx", "odk"}
    if set(nm) - builtin - set(e["ns"]):
        bad("unexpected-namespace", sorted(set(nm) - builtin), sorted(e["ns"]))
    # default language
    langs = {lang: d for lang, d, _ in obs.itext}
    for lang, d in langs.items():
        want = "true()" if lang == e["deflang"] else None
        if d != want:
            bad("default-language-flag", (lang, d), want)
    # non-leakage: every marker occurs exactly at its mapped places
    strs = strings_of(obs.root)
    for k, val in case["set"].items():
        if k in ("name", "default_language", "omit_instanceID", "auto_send", "auto_delete", "namespaces"):
            continue
        places = sorted(w for kind, w, v in strs if v == val)
        want = {
            "form_title": ["title"], "form_id": ["%s/@id" % e["root"]] + (["title"] if "form_title" not in case["set"] else []),
            "version": ["%s/@version" % e["root"]], "instance_name": ["bind/@calculate"],
            "submission_url": ["submission/@action"], "public_key": ["submission/@base64RsaPublicKey"],
            "style": ["body/@class"], "attribute::cattr": ["%s/@cattr" % e["root"]], "instance_xmlns": [],
            "attribute::id": [], "attribute::version": ["%s/@version" % e["root"]] if "version" not in case["set"] else [],
            "prefix": ["%s/@prefix" % e["root"]], "delimiter": ["%s/@delimiter" % e["root"]],
        }[k]
        if places != sorted(want):
            bad(f"leak:{k}", places, sorted(want))
    return {"outcome": "ok", "nt": bool(case["set"]) and not viol, "viol": [(s, d[:500]) for s, d in viol], "tr": ntr}
