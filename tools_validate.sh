#!/bin/bash
# dev helper: validate MANIFEST.json and evidence files against the given schemas
python3-vt - <<'PY'
import json, glob, jsonschema
m = json.load(open('/verif/MANIFEST.json'))
jsonschema.validate(m, json.load(open('/root/.vp/MANIFEST.schema.json')))
es = json.load(open('/root/.vp/EVIDENCE.schema.json'))
for f in sorted(glob.glob('/verif/evidence/*.json')):
    jsonschema.validate(json.load(open(f)), es)
print('manifest + evidence valid:', len(glob.glob('/verif/evidence/*.json')), 'evidence files')
PY
