#!/venv/bin/python
"""dev helper (never used by checks): add/update an entry of known_findings.json"""
import json, sys
p = "/verif/known_findings.json"
d = json.load(open(p))
prop, sig, status, what = sys.argv[1:5]
commit = sys.argv[5] if len(sys.argv) > 5 else None
for e in d["findings"]:
    if e["property"] == prop and e["signature"] == sig:
        e.update(status=status, what=what)
        if commit: e["commit"] = commit
        break
else:
    e = {"property": prop, "signature": sig, "status": status, "what": what}
    if commit: e["commit"] = commit
    d["findings"].append(e)
json.dump(d, open(p, "w"), indent=1, ensure_ascii=False)
