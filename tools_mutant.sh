#!/bin/bash
# dev helper: tools_mutant.sh <patch.diff> <prop> [tier]  - apply a patch to a scratch copy of
# /repo, run the check against it (VERIF_REPO), print the result, remove the copy.
set -u
patch=$(realpath "$1"); prop=$2; tier=${3:-quick}
d=$(mktemp -d /var/tmp/mut.XXXXXX)
rsync -a --exclude .git --exclude __pycache__ /repo/ "$d/"
( cd "$d" && patch -p1 -s < "$patch" ) || { echo "PATCH FAILED"; rm -rf "$d"; exit 3; }
if [ "${SUITE:-0}" = 1 ]; then /verif/tools_suite.py "$d"; fi
VERIF_REPO="$d" VERIF_EVIDENCE_DIR="$d" /verif/check "$prop" --tier "$tier" | sed "s#$d#<scratch>#g" | tail -${TAIL:-6}
rc=${PIPESTATUS[0]}
rm -rf "$d"
echo "check exit=$rc"
exit $rc
