#!/venv/bin/python
"""dev helper: tools_sigs.py <prop> <tier> [gen-name-filter]  - run a property's space in-process pool and
print every violation signature with its count and smallest sample (triage aid; not a check)."""
import os, sys, json, collections
os.environ.setdefault("PYTHONHASHSEED", "0")
sys.path.insert(0, "/verif")
from xmc import engine
import multiprocessing as mp
pid, tier = sys.argv[1], sys.argv[2]
flt = sys.argv[3] if len(sys.argv) > 3 else None
engine.bind_repo()
prop = engine.load_prop(pid)
blocks = [b for b in prop.blocks(tier) if flt is None or str(b[0]) == flt]
tasks = [(pid, tier, i, b) for i, b in enumerate(blocks)]
cnt = collections.Counter(); smp = {}; outc = collections.Counter(); n = 0
with mp.get_context("fork").Pool(16) as pool:
    for out in pool.imap_unordered(engine._run_block, tasks):
        if out["internal"]:
            print("INTERNAL", out["internal"]); continue
        n += out["n"]; outc.update(out["outcomes"]); cnt.update(out["viol_count"])
        for s, l in out["viol"].items():
            for it in l:
                if s not in smp or engine.case_size(it["case"]) < engine.case_size(smp[s]["case"]):
                    smp[s] = it
print("executions", n, dict(outc))
for s, c in sorted(cnt.items()):
    print(f"{c:7d} {s}\n        case={json.dumps(smp[s]['case'], ensure_ascii=False)[:300]}\n        detail={str(smp[s]['detail'])[:300]}")
