#!/venv/bin/python
"""dev helper (run once; output committed): freeze a corpus of realistic workbooks as plain {sheet: rows} dicts in
xmc/ref/corpus.json.  Sources: every workbook under /repo/tests/example_xls and bug_example_xls, and every markdown
table literal in /repo/tests/**/*.py.  The readers are used only here, at freeze time; the checks read the JSON."""
import ast, glob, hashlib, json, os, sys

sys.path.insert(0, "/repo")
from pyxform.xls2json_backends import get_xlsform  # noqa: E402

out = {}


def sheets(d):
    return {k: [dict(r) for r in getattr(d, k)] for k in ("survey", "choices", "settings", "external_choices", "entities", "osm") if getattr(d, k, None)}


def add(name, wb):
    wb = {k: v for k, v in wb.items() if isinstance(v, list) and not k.endswith("_header")}
    if not wb.get("survey"):
        return
    try:
        txt = json.dumps(wb, sort_keys=True, ensure_ascii=False)
    except TypeError:
        return
    if len(txt) > 40000:
        return
    h = hashlib.sha1(txt.encode()).hexdigest()[:10]
    if h not in out:
        out[h] = {"name": name, "wb": json.loads(txt)}


for f in sorted(glob.glob("/repo/tests/example_xls/*") + glob.glob("/repo/tests/bug_example_xls/*")):
    if f.rsplit(".", 1)[-1] not in ("xls", "xlsx", "csv", "md"):
        continue
    try:
        d = get_xlsform(f)
        add(os.path.basename(f), sheets(d))
    except Exception as e:  # noqa: BLE001
        print("skip", f, type(e).__name__, str(e)[:80])

n_md = 0
for f in sorted(glob.glob("/repo/tests/**/*.py", recursive=True)):
    try:
        tree = ast.parse(open(f).read())
    except SyntaxError:
        continue
    for node in ast.walk(tree):
        if isinstance(node, ast.Constant) and isinstance(node.value, str) and "|" in node.value and "survey" in node.value and "\n" in node.value:
            s = node.value
            if "{" in s and "}" in s and ("{}" in s or "{0}" in s or "{name}" in s):
                continue  # format templates
            try:
                d = get_xlsform(s)
                add(f"{os.path.relpath(f, '/repo/tests')}:{node.lineno}", sheets(d))
                n_md += 1
            except Exception:  # noqa: BLE001
                pass
print("md literals read:", n_md, "distinct workbooks:", len(out))
json.dump([out[k] | {"id": k} for k in sorted(out)], open("/verif/xmc/ref/corpus.json", "w"), ensure_ascii=False, indent=0)
print(os.path.getsize("/verif/xmc/ref/corpus.json"))
