#!/bin/bash
# dev helper: tools_seed_wave.sh <prop> <tag> [extra checks]  - evaluate seedA/seedB of /tmp/wt-<prop>-<tag>, then remove the worktree
p=$1; tag=$2; extra=${3:-}
for s in A B; do
  d=/tmp/wt-$p-$tag/seed$s
  [ -f $d/patch.diff ] || { echo "$p-$tag$s: no patch"; continue; }
  /verif/tools_seed_eval.py $d $p $p-$tag$s ${extra:+--checks $p,$extra} 2>&1 | grep -v "^WARNING" > /var/tmp/vlogs/seed-$p-$tag$s.json
  echo "== $p-$tag$s: $(grep -E '"demo_clean"|"demo_patched"|"suite_ok"|"exit"|stored|NOT|signature' /var/tmp/vlogs/seed-$p-$tag$s.json | tr -d '\n' | cut -c1-420)"
done
for s in A B; do
  if [ -d /tmp/wt-$p-$tag/seed$s ] && [ ! -d /verif/seeded/$p-$tag$s ]; then mkdir -p /var/tmp/seeds-unconfirmed; rm -rf /var/tmp/seeds-unconfirmed/$p-$tag$s; cp -r /tmp/wt-$p-$tag/seed$s /var/tmp/seeds-unconfirmed/$p-$tag$s; fi
done
git -C /repo worktree remove --force /tmp/wt-$p-$tag
