#!/bin/bash
# dev helper: run every registered quick (or $1) check in sequence, one summary line each
tier=${1:-quick}
for p in C01 C02 C03 C04 C05 C06 C07 C08 C09 C10 C11 C12 C13 C14 C15 C16 C17 C18 C19 C20; do
  out=$(/verif/check $p --tier $tier 2>&1); rc=$?
  echo "$p rc=$rc $(echo "$out" | grep -c '^KNOWN-FINDING') known | $(echo "$out" | tail -1 | cut -c1-200)"
  echo "$out" | grep -E "^VIOLATION|^COVERAGE|INTERNAL" | head -5
done
