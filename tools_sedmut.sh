#!/bin/bash
# dev helper: tools_sedmut.sh <file relative to repo> <sed expression> <prop>[,<prop>...] [tier]
# applies a one-line mutation to a scratch copy of /repo and runs the check(s) against it.
set -u
f=$1; expr=$2; props=$3; tier=${4:-quick}
d=$(mktemp -d /var/tmp/mut.XXXXXX)
rsync -a --exclude .git --exclude __pycache__ /repo/ "$d/"
sed -i "$expr" "$d/$f"
if diff -q "/repo/$f" "$d/$f" >/dev/null; then echo "MUTATION DID NOT CHANGE THE FILE"; rm -rf "$d"; exit 3; fi
diff "/repo/$f" "$d/$f" | head -6
if [ "${SUITE:-0}" = 1 ]; then /verif/tools_suite.py "$d" | tail -2; fi
for p in ${props//,/ }; do
  VERIF_REPO="$d" VERIF_EVIDENCE_DIR="$d" /verif/check "$p" --tier "$tier" 2>&1 | sed "s#$d#<scratch>#g" | grep -E "VIOLATION|signature=|exit=" | cut -c1-260 | head -${TAIL:-5}
done
rm -rf "$d"
