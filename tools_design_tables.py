#!/usr/bin/env python3
"""dev helper: print the markdown tables of DESIGN.md sections 6-7 from known_findings.json, seeded/*/meta.json and evidence/*.json"""
import glob, io, json, os, sys
_out = io.StringIO()
_real_print = print


def print(*a, **k):  # noqa: A001 - collect the tables so that --write can splice them into DESIGN.md
    _real_print(*a, **k, file=_out)


kf = json.load(open("/verif/known_findings.json"))["findings"]
print("### Findings: repaired (`fix:` commits in /repo)\n")
print("| prop | commit | what failed |\n|---|---|---|")
for e in kf:
    if e["status"] == "fixed":
        print(f"| {e['property']} | {e.get('commit','')} | {e['what']} |")
print("\n### Findings: open (listed, reported as KNOWN-FINDING)\n")
print("| prop | signature | what fails |\n|---|---|---|")
for e in kf:
    if e["status"] == "open":
        print(f"| {e['property']} | `{e['signature']}` | {e['what']} |")
print("\n### Independently seeded breaking changes\n")
print("| seed | needs to manifest | detected by (exit 1 = VIOLATION) |\n|---|---|---|")
for d in sorted(glob.glob("/verif/seeded/*")):
    m = json.load(open(d + "/meta.json"))
    det = ", ".join(f"{k}: exit {(v or {}).get('exit')}" for k, v in (m.get("detected_by") or {}).items())
    need = " ".join(str(m.get("needs_to_manifest", "")).split())[:230]
    print(f"| {os.path.basename(d)} | {need} | {det} |")
print("\n### Measured quick runs\n")
print("| id | executions | states | non-trivial | wall s |\n|---|---:|---:|---:|---:|")
for f in sorted(glob.glob("/verif/evidence/*.json")):
    e = json.load(open(f)); c = e["coverage"]
    print(f"| {e['property_id']} ({e['tier']}) | {c.get('evaluations')} | {c.get('states')} | {c.get('distinct_nontrivial')} | {e['wall_s']} |")


def write_into_design(text):
    p = "/verif/DESIGN.md"
    d = open(p).read()
    a = d.index("<!-- TABLES:BEGIN")
    a = d.index("\n", a) + 1
    b = d.index("<!-- TABLES:END -->")
    open(p, "w").write(d[:a] + "\n" + text + "\n" + d[b:])


if "--write" in sys.argv:
    write_into_design(_out.getvalue())
else:
    _real_print(_out.getvalue())
