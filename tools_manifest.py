#!/venv/bin/python
"""dev helper: regenerate MANIFEST.json from the property modules that exist under props/."""
import importlib, json, os, sys
sys.path.insert(0, "/verif")
os.environ.setdefault("VERIF_REPO", "/repo")
props = [json.loads(l) for l in open("/verif/properties.jsonl")]
checks, na = [], []
for p in props:
    pid = p["id"]
    if os.path.exists(f"/verif/props/{pid}.py"):
        m = importlib.import_module(f"props.{pid}")
        checks.append({
            "property_id": pid,
            "quick_cmd": f"./check {pid} --tier quick",
            "thorough_cmd": f"./check {pid} --tier thorough",
            "evidence_file": f"/verif/evidence/{pid}.json",
            "replay_cmd_template": f"./check {pid} --replay {{path}}",
            "engine": "xmc",
            "level_claimed": {"category": m.LEVEL, "text": m.CLAIM, "design_ref": f"DESIGN.md section 4, {pid}"},
            "level_note": "; ".join(m.ASSUMPTIONS),
            "technique": m.TECHNIQUE,
        })
    else:
        na.append({"property_id": pid, "reason": "check not built yet in this session; design in DESIGN.md section 4 (to be claimed once its explorer is committed)"})
man = {
    "version": 1,
    "setup_cmd": "/venv/bin/python -m compileall -q /verif/xmc /verif/props >/dev/null && /venv/bin/python -c \"import sys; sys.path.insert(0,'/repo'); import pyxform, openpyxl, xlrd\"",
    "hooks": {
        "guard": "XLSFORM_PYXFORM_VERIF",
        "enable": "no source hooks: checks import /repo's working tree directly (scheduling via sys.settrace, validator stand-in via PATH, I/O faults patched inside the harness process)",
        "baseline_off_cmd": "cd /repo && /venv/bin/python -m pytest -ra -q -p no:cacheprovider --timeout=900 --continue-on-collection-errors",
        "source_commits": [],
        "add_only": True,
    },
    "engines": [{"name": "xmc", "path": "/verif/xmc", "serves_properties": [c["property_id"] for c in checks],
                 "kind_free_text": "hand-written explicit small-scope explorer for Python: bounded exhaustive enumeration of inputs / operation sequences / schedules / fault scripts, every case executed on the real pyxform and compared with a reference model or relation"}],
    "checks": checks,
    "not_applicable": na,
    "notes": "All checks: exit 0 = held on everything explored (KNOWN-FINDING lines for entries of known_findings.json), exit 1 + VIOLATION line otherwise, exit 2 = internal harness error (never a verdict). VERIF_REPO overrides the tree under verification (default /repo).",
}
if not na: del man["not_applicable"]
json.dump(man, open("/verif/MANIFEST.json", "w"), indent=1)
print("checks:", [c["property_id"] for c in checks], "n/a:", len(na))
