#!/venv/bin/python
"""dev helper: tools_seed_eval.py <seed-dir> <prop> <seed-id> [--checks C02,C14] [--tier quick] [--keep]
Confirms an independently written breaking change and runs our check(s) against it:
  1. scratch copy of /repo (current tree), demo must exit 0 there;
  2. apply patch.diff, demo must exit 1, pinned suite must keep every stable_pass test;
  3. run ./check <prop> against the scratch copy (VERIF_REPO), record exit status / VIOLATION line;
  4. store patch, demo, meta.json (augmented) under /verif/seeded/<seed-id>/ ; remove the scratch copy.
"""
import json, os, shutil, subprocess, sys, tempfile

sd, prop, sid = sys.argv[1], sys.argv[2], sys.argv[3]
args = sys.argv[4:]
checks = [prop]
tier = "quick"
if "--checks" in args:
    checks = args[args.index("--checks") + 1].split(",")
if "--tier" in args:
    tier = args[args.index("--tier") + 1]
skip_suite = "--no-suite" in args
d = tempfile.mkdtemp(prefix="seed.", dir="/var/tmp")
res = {"seed": sid, "property": prop}
try:
    subprocess.run(["rsync", "-a", "--exclude", ".git", "--exclude", "__pycache__", "/repo/", d + "/"], check=True)
    os.makedirs(d + "/seedX", exist_ok=True)
    shutil.copy(sd + "/demo.py", d + "/seedX/demo.py")
    env = dict(os.environ, PYTHONPATH=d, PYTHONDONTWRITEBYTECODE="1")
    env.pop("PYTHONHASHSEED", None)

    def demo():
        r = subprocess.run(["/venv/bin/python", "seedX/demo.py"], cwd=d, env=env, capture_output=True, text=True, timeout=600)
        return r.returncode, (r.stdout + r.stderr)[-600:]

    res["demo_clean"] = demo()[0]
    p = subprocess.run(["patch", "-p1", "-s", "--no-backup-if-mismatch", "-i", os.path.abspath(sd + "/patch.diff")], cwd=d, capture_output=True, text=True)
    res["patch_applies"] = p.returncode == 0
    if p.returncode != 0:
        res["patch_err"] = (p.stdout + p.stderr)[-400:]
    else:
        rc, out = demo()
        res["demo_patched"] = rc
        res["demo_out"] = out[-300:]
        if not skip_suite:
            s = subprocess.run(["/verif/tools_suite.py", d], capture_output=True, text=True)
            res["suite_ok"] = s.returncode == 0
            res["suite"] = s.stdout.strip().splitlines()[-3:]
        for c in checks:
            e = dict(os.environ, VERIF_REPO=d, VERIF_EVIDENCE_DIR=d)
            r = subprocess.run(["/verif/check", c, "--tier", tier], capture_output=True, text=True, env=e)
            lines = [l for l in r.stdout.splitlines() if l.startswith(("VIOLATION", "  signature="))]
            res[f"check_{c}"] = {"exit": r.returncode, "lines": [l[:400].replace(d, "<scratch>") for l in lines[:4]],
                                 "tail": r.stdout.strip().splitlines()[-1:][0][:300] if r.stdout.strip() else r.stderr[-300:]}
finally:
    shutil.rmtree(d, ignore_errors=True)
print(json.dumps(res, indent=1))
ok = res.get("demo_clean") == 0 and res.get("demo_patched") == 1 and (skip_suite or res.get("suite_ok"))
if ok or "--keep" in args:
    out = f"/verif/seeded/{sid}"
    os.makedirs(out, exist_ok=True)
    same = os.path.realpath(sd) == os.path.realpath(out)
    if not same:
        shutil.copy(sd + "/patch.diff", out + "/patch.diff")
        shutil.copy(sd + "/demo.py", out + "/demo.py")
    meta = {}
    try:
        meta = json.load(open(sd + "/meta.json"))
    except Exception:
        pass
    det = dict(meta.get("detected_by") or {}) if same else {}
    det.update({c: res.get(f"check_{c}") for c in checks})
    conf = dict(meta.get("confirmed") or {}) if same else {}
    conf.update({k: res.get(k) for k in ("demo_clean", "demo_patched", "suite_ok", "suite") if res.get(k) is not None})
    meta.update({"property": prop, "confirmed": conf,
                 "what_we_ran": f"scratch copy of /repo + patch: demo.py, pinned suite (tools_suite.py), ./check <ids under detected_by> --tier {tier} with VERIF_REPO=<scratch>",
                 "detected_by": det})
    json.dump(meta, open(out + "/meta.json", "w"), indent=1)
    print("stored", out)
else:
    print("NOT CONFIRMED - not stored")
