#!/venv/bin/python
"""dev helper: run the pinned pytest suite in a tree (default /repo) and require every
stable_pass test of /root/.vp/BASELINE.json to pass.  exit 0 iff all pass."""
import json, os, subprocess, sys, tempfile
import xml.etree.ElementTree as ET
repo = sys.argv[1] if len(sys.argv) > 1 else "/repo"
base = json.load(open("/root/.vp/BASELINE.json"))
want = set(base["stable_pass"])
with tempfile.TemporaryDirectory() as td:
    jx = os.path.join(td, "j.xml")
    env = dict(os.environ, PYTHONDONTWRITEBYTECODE="1", PYTHONPATH=repo)
    env.pop("PYTHONHASHSEED", None)
    r = subprocess.run(["/venv/bin/python", "-m", "pytest", "-q", "-p", "no:cacheprovider", "--timeout=900",
                        "--continue-on-collection-errors", "-x" if "-x" in sys.argv else "-q", f"--junitxml={jx}", "-n", "8"] if False else
                       ["/venv/bin/python", "-m", "pytest", "-q", "-p", "no:cacheprovider", "--timeout=900",
                        "--continue-on-collection-errors", f"--junitxml={jx}"],
                       cwd=repo, env=env, capture_output=True, text=True)
    passed = set()
    for tc in ET.parse(jx).getroot().iter("testcase"):
        if not any(c.tag in ("failure", "error", "skipped") for c in tc):
            passed.add(f"{tc.get('classname')}::{tc.get('name')}")
missing = sorted(want - passed)
print(f"stable_pass={len(want)} passed_now={len(passed & want)} missing={len(missing)}")
for m in missing[:20]:
    print("  NOT PASSING:", m)
sys.exit(1 if missing else 0)
